// Harness `anydata` (C17): AnyData over a type table of sizes 1..256 x {trivial, non-trivial, move-only, shared} x capacities.
#include "h_anydata_impl.h"
#include "common/leak.h"

namespace vfad {
CaseFn caseTable1(int, int);
CaseFn caseTable24(int, int);
CaseFn caseTable32(int, int);
CaseFn caseTable64(int, int);
}

namespace {
using namespace vf;
using namespace vfad;

const int kCaps[] = { 1, 24, 32, 64 };

const char * kindName(int k)
{
	static const char * n[] = { "?", "move", "read", "isType", "queueRoundTrip", "rebuild", "throwingConstruction" };
	return (k > 0 && k <= 6) ? n[k] : "?";
}

Grammar makeGrammar()
{
	Grammar g;
	// params: size index, kind, capacity index, seed, how the AnyData is built
	g.params = { ArgSpec(0, kNumSizes - 1), ArgSpec(0, 5), ArgSpec(0, 3), ArgSpec(1, 200), ArgSpec(0, 5) };
	g.maxDepth = 1;
	g.maxTotalOps = 12;
	Level top;
	top.minOps = 1;
	top.maxOps = 8;
	top.kinds = {
		{ A_MOVE, "move", 10, ArgSpec(0, 0), ArgSpec(0, 0), ArgSpec(0, 0), -1, 0 },
		{ A_READ, "read", 3, ArgSpec(0, 0), ArgSpec(0, 0), ArgSpec(0, 0), -1, 0 },
		{ A_QUEUE, "queueRoundTrip", 6, ArgSpec(0, 1), ArgSpec(0, 1), ArgSpec(0, 0), -1, 0 },
		{ A_THROW, "throwingConstruction", 4, ArgSpec(0, 2), ArgSpec(0, 1), ArgSpec(0, 0), -1, 0 },
	};
	g.levels.push_back(top);
	return g;
}
const Grammar & grammar(const std::string &) { static Grammar g = makeGrammar(); return g; }

long g_caseCounter = 0;

Verdict run(const Program & p, const std::string &)
{
	Verdict v;
	v.trace.reserve(512);
	v.classes.reserve(8);
	ledger().reset();
	LeakScope scope;
	const int si = p.params.size() > 0 ? ((p.params[0] % kNumSizes) + kNumSizes) % kNumSizes : 0;
	const int kind = p.params.size() > 1 ? ((p.params[1] % 6) + 6) % 6 : 0;
	const int mi = p.params.size() > 2 ? ((p.params[2] % 4) + 4) % 4 : 0;
	CaseFn fn = mi == 0 ? caseTable1(si, kind) : mi == 1 ? caseTable24(si, kind) : mi == 2 ? caseTable32(si, kind) : caseTable64(si, kind);
	CaseResult r = fn(p);
	const int N = kSizes[si];
	const int cap = kCaps[mi] < 16 ? 16 : kCaps[mi];
	int moves = 0; bool queue = false;
	for(const Op & op : p.ops) { if(op.kind == A_MOVE) ++moves; if(op.kind == A_QUEUE) queue = true; }
	const bool nearCap = (N >= cap - 1 && N <= cap + 1) || N > cap;
	if(nearCap) v.classes.push_back("size_at_or_beyond_capacity");
	if(N > cap) v.classes.push_back("larger_than_capacity_heap");
	if(kind == 2) v.classes.push_back("move_only");
	if(kind == 3) v.classes.push_back("shared_ownership");
	if(kind == 4) v.classes.push_back("trivial_copy_user_move");
	if(kind == 5) v.classes.push_back("initializer_list_constructor_over_itself");
	if(queue) v.classes.push_back("queue_round_trip");
	for(const Op & op : p.ops) if(op.kind == A_THROW && kind == 1) { v.classes.push_back("held_object_construction_throws"); break; }
	v.nontrivial = nearCap && kind != 0 && (moves >= 2 || queue);
	v.trace = "AnyData<" + std::to_string(kCaps[mi]) + "> holding P<" + std::to_string(N) + "," + std::to_string(kind) + ">";
	if(! r.ok) v.fail(r.rule, r.rule.compare(0, 6, "ledger") == 0 ? "C08,C17" : "C17", v.trace + ": " + r.msg);
	ledger().reset();
	if(v.ok && (scope.grew() || (++g_caseCounter & 1023) == 0)) {
		if(confirmLeak()) v.fail("lsan.leak", "C08,C17", "LeakSanitizer: a held object or its heap block was not released", "lsan.leak");
	}
	return v;
}

// bounded-exhaustive part: every (size, kind, capacity) triple with a fixed script: 3 moves + both queue round trips
std::string enumerate(const std::string &, const std::function<bool (const Program &)> & sink)
{
	for(int si = 0; si < kNumSizes; ++si) for(int kind = 0; kind < 6; ++kind) for(int mi = 0; mi < 4; ++mi) for(int how = 0; how < 3; ++how) {
		Program p;
		p.params = { si, kind, mi, 7 + si, how };
		Op mv; mv.kind = A_MOVE;
		Op q0; q0.kind = A_QUEUE; q0.a = 1; q0.b = 0;
		Op q1; q1.kind = A_QUEUE; q1.a = 1; q1.b = 1;
		Op t0; t0.kind = A_THROW; t0.a = how; t0.b = 0;
		Op t1; t1.kind = A_THROW; t1.a = how; t1.b = 1;
		p.ops = { mv, mv, q0, mv, q1, t0, t1 };
		if(! sink(p)) return "aborted at the first failure";
	}
	return "all 19 sizes x 6 kinds x 4 capacities x 3 construction forms with the script move,move,queue(process),move,queue(processOne),throwing move,throwing build";
}

} // namespace

namespace vf {
const Harness g_harness = { "anydata", &grammar, &run, &kindName, &enumerate };
}
