// Harness `cbl`: CallbackList histories, re-entrant programs, multi-object copy/move/swap, counter wrap.
// Serves C01 (flat), C02 (nested), C08 (ledger rules), C10 (multi-object), C19 (wrap).
// Lock-step execution of the real CallbackList and an independent value-semantic model (DESIGN 2.7).
#include <eventpp/callbacklist.h>
#include <eventpp/utilities/eventutil.h>

#include "common/harness.h"
#include "common/ledger.h"
#include "common/checked.h"

#include <algorithm>
#include <memory>
#include <set>
#include <sstream>

#include "common/leak.h"
#include "common/faultmode.h"

namespace {

using namespace vf;

enum Kind {
	K_APPEND = 1, K_PREPEND, K_INSERT, K_REMOVE, K_OWNS, K_EMPTY, K_INVOKE, K_FOREACH, K_FOREACHIF,
	K_HAS, K_REMOVEL, K_HASANY,
	K_NEWLIST, K_COPYCTOR, K_COPYASSIGN, K_MOVECTOR, K_MOVEASSIGN, K_SWAP, K_DESTROY, K_CHURN, K_NEARWRAP,
	K_MAX
};

const char * kindName(int k)
{
	static const char * names[] = { "?", "append", "prepend", "insert", "remove", "owns", "empty", "invoke", "forEach", "forEachIf",
		"hasListener", "removeListener", "hasAnyListener",
		"newList", "copyCtor", "copyAssign", "moveCtor", "moveAssign", "swap", "destroy", "churn", "nearWrap" };
	return (k > 0 && k < K_MAX) ? names[k] : "?";
}

const int kMaxLists = 4;
const int kMaxDepth = 4;
const int kFuel = 300;

struct ArgView
{
	int proto;
	int i;
	const Tracked * t;
	int * ref;
};

struct Interp;
Interp * g_interp = nullptr;
void deliver(int cb, const ArgView & v);

// every callback object added to a list carries the serial number of its add and counts its own calls: it shows whether the
// object an invocation runs is the one stored in the list (its state survives from call to call) or a copy made for the occasion
int g_cbSerial = -1, g_cbOwnCalls = 0;
struct Cb : public LedgeredT<2>
{
	explicit Cb(int cb, int serial_ = -1) : LedgeredT<2>(kCbBase + cb), serial(serial_) {}
	int cb() const { return id - kCbBase; }
	int serial;
	mutable int ownCalls = 0;
	void note() const { g_cbSerial = serial; g_cbOwnCalls = ++ownCalls; }

	void operator() () const { touch(); note(); ArgView v { 3, 0, nullptr, nullptr }; deliver(cb(), v); }
	void operator() (int i, const Tracked & t) const { touch(); note(); ArgView v { 0, i, &t, nullptr }; deliver(cb(), v); }
	void operator() (Tracked t) const {
		touch(); note();
		ArgView v { 1, 0, &t, nullptr };
		deliver(cb(), v);
		// a by-value parameter belongs to the callback: steal it, so that a list that forwarded (moved)
		// its argument instead of copying would hand a moved-from object to the next callback
		Tracked stolen(std::move(t));
		(void)stolen;
	}
	void operator() (int & r) const { touch(); note(); ArgView v { 2, 0, nullptr, &r }; deliver(cb(), v); }

	bool operator == (const Cb & o) const { touch(); o.touch(); return id == o.id; }
	bool operator != (const Cb & o) const { return ! (*this == o); }
};

// ---------------------------------------------------------------- implementation back end

struct IImpl
{
	virtual ~IImpl() {}
	virtual bool hasUtil() const = 0;
	virtual int proto() const = 0;
	virtual void newList(int slot, int fill) = 0;
	virtual void destroyList(int slot) = 0;
	virtual void append(int slot, int cb) = 0;
	virtual void prepend(int slot, int cb) = 0;
	virtual void insert(int slot, int cb, int h) = 0;
	virtual bool remove(int slot, int h) = 0;
	virtual bool owns(int slot, int h) = 0;
	virtual bool empty(int slot) = 0;
	virtual bool asBool(int slot) = 0;
	virtual int invoke(int slot, int arg, int serial, int how) = 0;
	virtual void forEach(int slot, int form, std::vector<std::pair<int, int> > & out) = 0;
	virtual bool forEachIf(int slot, int form, int stopAfter, std::vector<std::pair<int, int> > & out) = 0;
	virtual int util(int slot, int which, int cb) = 0;
	virtual void copyCtor(int src, int dst, int fill) = 0;
	virtual void copyAssign(int dst, int src) = 0;
	virtual void moveCtor(int src, int dst, int fill) = 0;
	virtual void moveAssign(int dst, int src) = 0;
	virtual void swapLists(int a, int b, int how) = 0;
	virtual int harvest(int slot, int expect) = 0;
	virtual void churn(int slot, int n) = 0;
	virtual void nearWrap(int slot, int k) = 0;
	virtual unsigned long long counter(int slot) = 0;
	virtual bool handleExpired(int h) = 0;
	virtual size_t handleCount() const = 0;
};

template <int P> struct Proto;
template <> struct Proto<0> { using Sig = void (int, const Tracked &); };
template <> struct Proto<1> { using Sig = void (Tracked); };
template <> struct Proto<2> { using Sig = void (int &); };
template <> struct Proto<3> { using Sig = void (); };

template <typename List> int doInvoke(const List & list, std::integral_constant<int, 0>, int arg, int serial, int)
{
	Tracked t(serial, arg * 3 + 1);
	list(arg, t);
	return t.intact() ? 0 : -1;
}
template <typename List> int doInvoke(const List & list, std::integral_constant<int, 1>, int arg, int serial, int how)
{
	if(how & 1) {
		list(Tracked(serial, arg * 3 + 1));
		return 0;
	}
	Tracked t(serial, arg * 3 + 1);
	list(t);
	return t.intact() ? 0 : -1;
}
template <typename List> int doInvoke(const List & list, std::integral_constant<int, 2>, int arg, int, int)
{
	int v = arg;
	list(v);
	return v;
}
template <typename List> int doInvoke(const List & list, std::integral_constant<int, 3>, int, int, int)
{
	list();
	return 0;
}

template <typename List, typename Cbk>
auto doUtil(List & list, int which, const Cbk & cb, int) -> decltype(cb == cb, int())
{
	switch(which) {
	case 0: return eventpp::hasListener(list, cb) ? 1 : 0;
	case 1: return eventpp::removeListener(list, cb) ? 1 : 0;
	default: return eventpp::hasAnyListener(list) ? 1 : 0;
	}
}

template <int P, typename Policies, bool Util>
struct Impl : IImpl
{
	using List = eventpp::CallbackList<typename Proto<P>::Sig, Policies>;
	using Handle = typename List::Handle;
	using Callback = typename List::Callback;

	struct Slot
	{
		alignas(List) unsigned char buf[sizeof(List)];
		List * p = nullptr;
	};
	Slot slots[kMaxLists];
	std::vector<Handle> handles;

	Impl() { handles.reserve(4096); }
	~Impl() override {
		for(int i = 0; i < kMaxLists; ++i) destroyList(i);
	}

	bool hasUtil() const override { return Util; }
	int proto() const override { return P; }
	List & L(int s) { return *slots[s].p; }
	Handle H(int h) const { return h >= 0 && (size_t)h < handles.size() ? handles[h] : Handle(); }

	void fillSlot(int slot, int fill) {
		static const unsigned char pat[4] = { 0x00, 0xff, 0xaa, 0x5c };
		memset(slots[slot].buf, pat[fill & 3], sizeof(List));
	}
	void newList(int slot, int fill) override {
		fillSlot(slot, fill);
		slots[slot].p = new (slots[slot].buf) List();
	}
	void destroyList(int slot) override {
		if(slots[slot].p) {
			slots[slot].p->~List();
			slots[slot].p = nullptr;
		}
	}
	int addSerial = 0; // the n-th add through this back end creates model node n as long as no list is copied
	void append(int slot, int cb) override { handles.push_back(L(slot).append(Cb(cb, addSerial++))); }
	void prepend(int slot, int cb) override { handles.push_back(L(slot).prepend(Cb(cb, addSerial++))); }
	void insert(int slot, int cb, int h) override { handles.push_back(L(slot).insert(Cb(cb, addSerial++), H(h))); }
	bool remove(int slot, int h) override { return L(slot).remove(H(h)); }
	bool owns(int slot, int h) override { return L(slot).ownsHandle(H(h)); }
	bool empty(int slot) override { return L(slot).empty(); }
	bool asBool(int slot) override { return (bool)L(slot); }
	int invoke(int slot, int arg, int serial, int how) override {
		return doInvoke(static_cast<const List &>(L(slot)), std::integral_constant<int, P>(), arg, serial, how);
	}

	int findHandle(const Handle & h) const {
		if(h.expired()) return -1;
		for(size_t i = handles.size(); i > 0; --i) {
			const Handle & k = handles[i - 1];
			if(! k.owner_before(h) && ! h.owner_before(k) && ! k.expired()) return (int)(i - 1);
		}
		return -2; // a live handle the harness has never seen
	}
	static int cbOf(const Cb & c) { return c.cb(); }
	template <typename F> static int cbOf(const F & f) {
		const Cb * c = f.template target<Cb>();
		return c ? c->cb() : -7;
	}
	void forEach(int slot, int form, std::vector<std::pair<int, int> > & out) override {
		FaultPause fp;
		if(form == 0) {
			L(slot).forEach([&](const Handle & h, const Callback & c) { out.push_back(std::make_pair(findHandle(h), cbOf(c))); });
		}
		else {
			L(slot).forEach([&](const Callback & c) { out.push_back(std::make_pair(-3, cbOf(c))); });
		}
	}
	bool forEachIf(int slot, int form, int stopAfter, std::vector<std::pair<int, int> > & out) override {
		FaultPause fp;
		if(form == 0) {
			return L(slot).forEachIf([&](const Handle & h, const Callback & c) -> bool {
				out.push_back(std::make_pair(findHandle(h), cbOf(c)));
				return (int)out.size() <= stopAfter;
			});
		}
		return L(slot).forEachIf([&](const Callback & c) -> bool {
			out.push_back(std::make_pair(-3, cbOf(c)));
			return (int)out.size() <= stopAfter;
		});
	}
	int util(int slot, int which, int cb) override { return doUtilSel(slot, which, cb, std::integral_constant<bool, Util>()); }
	int doUtilSel(int slot, int which, int cb, std::true_type) { Callback c = Cb(cb); return doUtil(L(slot), which, c, 0); }
	int doUtilSel(int, int, int, std::false_type) { return -1; }

	void copyCtor(int src, int dst, int fill) override {
		fillSlot(dst, fill);
		slots[dst].p = new (slots[dst].buf) List(static_cast<const List &>(L(src)));
	}
	void copyAssign(int dst, int src) override { L(dst) = static_cast<const List &>(L(src)); }
	void moveCtor(int src, int dst, int fill) override {
		fillSlot(dst, fill);
		slots[dst].p = new (slots[dst].buf) List(std::move(L(src)));
	}
	void moveAssign(int dst, int src) override { L(dst) = std::move(L(src)); }
	void swapLists(int a, int b, int how) override {
		if(how & 1) { using std::swap; swap(L(a), L(b)); }
		else L(a).swap(L(b));
	}
	// after a copy: collect the handles of the new nodes, in order; pads/truncates to `expect`
	int harvest(int slot, int expect) override {
		std::vector<Handle> got;
		L(slot).forEach([&](const Handle & h, const Callback &) { got.push_back(h); });
		for(int i = 0; i < expect; ++i) handles.push_back(i < (int)got.size() ? got[i] : Handle());
		return (int)got.size();
	}
	void churn(int slot, int n) override {
		FaultPause fp;
		for(int i = 0; i < n; ++i) {
			Handle h = L(slot).append(Cb(900000));
			L(slot).remove(h);
		}
	}
	void nearWrap(int slot, int k) override { L(slot).verifSetCounterBeforeMax((unsigned)k); }
	unsigned long long counter(int slot) override { return L(slot).verifGetCounter(); }
	bool handleExpired(int h) override { return H(h).expired(); }
	size_t handleCount() const override { return handles.size(); }
};

struct PolDefault {};
struct PolDefaultCb { using Callback = Cb; };
struct PolSingle { using Threading = eventpp::SingleThreading; };
struct PolSingleCb { using Threading = eventpp::SingleThreading; using Callback = Cb; };
struct PolChecked { using Threading = CheckedThreading; };
struct PolCheckedCb { using Threading = CheckedThreading; using Callback = Cb; };
struct PolSpinCb { using Threading = eventpp::GeneralThreading<eventpp::SpinLock>; using Callback = Cb; };

const int kConfigs = 8;
IImpl * makeImpl(int cfg)
{
	const bool forceChecked = getenv("VERIF_FORCE_CHECKED") != nullptr;
	switch(cfg) {
	case 0: if(forceChecked) return new Impl<0, PolChecked, false>(); return new Impl<0, PolDefault, false>();
	case 1: if(forceChecked) return new Impl<1, PolCheckedCb, true>(); return new Impl<1, PolSingleCb, true>();
	case 2: return new Impl<2, PolChecked, false>();
	case 3: if(forceChecked) return new Impl<3, PolCheckedCb, true>(); return new Impl<3, PolSpinCb, true>();
	case 4: return new Impl<0, PolCheckedCb, true>();
	case 5: if(forceChecked) return new Impl<3, PolChecked, false>(); return new Impl<3, PolSingle, false>();
	case 6: if(forceChecked) return new Impl<1, PolChecked, false>(); return new Impl<1, PolDefault, false>();
	default: if(forceChecked) return new Impl<2, PolCheckedCb, true>(); return new Impl<2, PolDefaultCb, true>();
	}
}

// ---------------------------------------------------------------- model + lock-step interpreter

// `lib->op(...)` runs the library call with the fault injector un-paused for the duration of the full expression;
// plain `impl->op(...)` (probes, bookkeeping) keeps it paused
struct LibProxy
{
	IImpl * p = nullptr;
	struct Scope
	{
		IImpl * p;
		explicit Scope(IImpl * p_) : p(p_) { --faults().paused; }
		~Scope() { ++faults().paused; }
		IImpl * operator -> () const { return p; }
	};
	Scope operator -> () const { return Scope(p); }
};

struct MList
{
	bool alive = false;
	std::vector<int> nodes;
};

struct Frame
{
	int slot;
	std::vector<int> snap;
	size_t cursor = 0;
	int arg = 0;
	int calls = 0;
	int firstNewNode = 0;   // nodes with id >= this were added during the frame
	bool relaxed = false;   // the counter wrapped while this frame was running (C19)
	int lastCalledNode = -1;
	int currentNode = -1;
	std::set<int> extraCalled;
};

struct Interp
{
	const Program & prog;
	std::string prop;
	Verdict & v;
	std::unique_ptr<IImpl> impl;
	LibProxy lib;
	MList lists[kMaxLists];
	std::vector<int> nodeCb;               // node id (== handle index) -> callback id
	std::vector<const std::vector<Op> *> cbBody;
	std::vector<Frame> frames;
	int lastRemoved = -1;
	int fuel = kFuel;
	int nextSerial = 1;
	bool failed = false;
	bool multi = false;
	std::vector<int> callsOfSerial;
	bool allowReuse = false;
	std::ostringstream log;
	unsigned long long lastCounter[kMaxLists];
	FaultPlan * plan = nullptr;

	// class / non-triviality bookkeeping
	bool sawInsertLiveNonHead = false, sawRemoveLive = false, sawStaleOp = false, invokeAfter = false;
	bool mutatedDuringInvoke = false, observedAfterMutation = false;
	bool selfRemove = false, doubleRemove = false, insertBeforeRemoved = false, nested2 = false, removeOuterCurrent = false;
	bool transferThenBoth = false, dirtyStorage = false, counterGap = false;
	int transferStage = 0;
	bool wrapped = false; int invokesAfterWrap = 0; bool addDuringInvokeAfterWrap = false; bool wrapWith2 = false;
	bool removedDuringInvocation = false, destroyedNonEmpty = false;
	long skippedForeign = 0;

	Interp(const Program & p, const std::string & prop_, Verdict & v_) : prog(p), prop(prop_), v(v_) {
		for(auto & c : lastCounter) c = 0;
	}

	void fail(const std::string & rule, const std::string & pr, const std::string & msg) {
		if(failed) return;
		failed = true;
		v.fail(rule, pr, msg + " | log: " + tail());
	}
	std::string tail() {
		std::string s = log.str();
		if(s.size() > 600) s = "..." + s.substr(s.size() - 600);
		return s;
	}
	// property a behavioural mismatch belongs to: the domain the program was drawn from
	std::string domainProp() const {
		if(prop == "C08") return "C01,C02,C10,C08";
		if(prop == "C09") return "C09";
		return prop;
	}

	int findList(int node) const {
		for(int s = 0; s < kMaxLists; ++s) {
			if(! lists[s].alive) continue;
			if(std::find(lists[s].nodes.begin(), lists[s].nodes.end(), node) != lists[s].nodes.end()) return s;
		}
		return -1;
	}
	bool inList(int slot, int node) const {
		return node >= 0 && std::find(lists[slot].nodes.begin(), lists[slot].nodes.end(), node) != lists[slot].nodes.end();
	}
	bool slotBusy(int slot) const {
		for(const Frame & f : frames) if(f.slot == slot) return true;
		return false;
	}
	int pickLive(int c) const {
		int n = 0;
		for(int s = 0; s < kMaxLists; ++s) if(lists[s].alive) ++n;
		if(n == 0) return -1;
		int k = ((c % n) + n) % n;
		for(int s = 0; s < kMaxLists; ++s) if(lists[s].alive && k-- == 0) return s;
		return -1;
	}
	int pickDead() const {
		for(int s = 0; s < kMaxLists; ++s) if(! lists[s].alive) return s;
		return -1;
	}
	int resolveHandle(int a, int self) const {
		const int n = (int)nodeCb.size();
		if(a >= 0) return n ? a % n : -1;
		switch(a) {
		case -1: return self >= 0 ? self : (n ? n - 1 : -1);
		case -2: return lastRemoved;
		case -3: return -1;
		case -4: return n ? n - 1 : -1;
		case -5: return frames.size() >= 2 ? frames[frames.size() - 2].currentNode : self;
		case -6: return self >= 0 && self + 1 < n ? self + 1 : -1;
		default: return -1;
		}
	}

	int newCallback(const Op & op, bool reuse) {
		if(reuse && allowReuse && op.b > 0 && ! cbBody.empty()) {
			return (op.b - 1) % (int)cbBody.size();
		}
		cbBody.push_back(&op.body);
		return (int)cbBody.size() - 1;
	}

	void noteCounter(int slot) {
		unsigned long long c = impl->counter(slot);
		if(c < lastCounter[slot]) {
			// generation counter wrapped: invocations of this list that are in progress are relaxed (C19)
			wrapped = true;
			if(lists[slot].nodes.size() >= 2) wrapWith2 = true;
			for(Frame & f : frames) if(f.slot == slot) f.relaxed = true;
			log << "[wrap]";
		}
		lastCounter[slot] = c;
	}

	void exec(const std::vector<Op> & ops, int depth, int self) {
		int index = 0;
		for(const Op & op : ops) {
			if(failed) return;
			if(depth == 0 && plan) execWithFaults(op, index);
			else execOp(op, depth, self);
			if(depth == 0 && ! failed) quiescent();
			++index;
		}
	}

	// C09: the operation may be cut by an injected exception. Listener-management operations, assignment and copies
	// must then leave everything as it was (model snapshot restored); an invocation leaves what the callbacks did.
	void execWithFaults(const Op & op, int index) {
		struct Snap { MList lists[kMaxLists]; std::vector<int> nodeCb; size_t bodies; int lastRemoved; unsigned long long counters[kMaxLists]; } snap;
		for(int i = 0; i < kMaxLists; ++i) { snap.lists[i] = lists[i]; snap.counters[i] = lastCounter[i]; }
		snap.nodeCb = nodeCb; snap.bodies = cbBody.size(); snap.lastRemoved = lastRemoved;
		const size_t depth0 = frames.size();
		bool nonEmpty = false;
		for(int i = 0; i < kMaxLists; ++i) if(lists[i].alive && ! lists[i].nodes.empty()) nonEmpty = true;
		int caught = 0;
		{
			FaultArm arm(plan, index);
			try { execOp(op, 0, -1); }
			catch(const Injected &) { caught = 1; }
			catch(const std::bad_alloc &) { caught = 2; }
			catch(const DeadlockDetected &) { throw; }
			catch(...) { fail("fault.foreign", "C09", "an exception of a different type than the injected one reached the caller"); }
		}
		if(! caught) return;
		if(faults().fired == 0) { fail("fault.spurious", "C09", "an exception reached the caller although no fault was injected"); return; }
		++plan->fired;
		plan->firedKind = faults().lastKind;
		auto it = plan->at.find(index);
		if(it != plan->at.end() && it->second > 1 && nonEmpty) plan->firedAtKGreater1OnNonEmpty = true;
		log << "[fault " << (caught == 1 ? "Injected" : "bad_alloc") << "]";
		frames.resize(depth0);
		if(op.kind != K_INVOKE) {
			for(int i = 0; i < kMaxLists; ++i) { lists[i] = snap.lists[i]; lastCounter[i] = snap.counters[i]; }
			nodeCb = snap.nodeCb; cbBody.resize(snap.bodies); lastRemoved = snap.lastRemoved;
		}
		if((int)impl->handleCount() != (int)nodeCb.size()) fail("fault.handles", "C09", "a failed add still produced a handle (or lost one)");
		// whatever happened, every list must still describe exactly the model content (strong guarantee / callbacks' own effects)
		for(int s2 = 0; s2 < kMaxLists && ! failed; ++s2) if(lists[s2].alive) enumerateAndCompare(s2, 0, "forEach after the exception");
	}

	void checkAdded(int slot) {
		if((int)impl->handleCount() != (int)nodeCb.size()) {
			fail("cbl.internal", "*", "handle table out of step");
		}
		noteCounter(slot);
		if(! frames.empty()) {
			mutatedDuringInvoke = true;
			if(wrapped) addDuringInvokeAfterWrap = true;
		}
	}

	void execOp(const Op & op, int depth, int self) {
		const int slot = pickLive(op.c);
		log << ' ' << kindName(op.kind);
		switch(op.kind) {
		case K_APPEND: case K_PREPEND: {
			if(slot < 0) break;
			int cb = newCallback(op, true);
			int node = (int)nodeCb.size();
			nodeCb.push_back(cb);
			if(op.kind == K_APPEND) { lists[slot].nodes.push_back(node); lib->append(slot, cb); }
			else { lists[slot].nodes.insert(lists[slot].nodes.begin(), node); lib->prepend(slot, cb); }
			log << '(' << slot << ":n" << node << ")";
			checkAdded(slot);
			break;
		}
		case K_INSERT: {
			if(slot < 0) break;
			int h = resolveHandle(op.a, self);
			int where = h >= 0 ? findList(h) : -1;
			if(where >= 0 && where != slot) { ++skippedForeign; log << "(skip-foreign)"; break; }
			int cb = newCallback(op, false);
			int node = (int)nodeCb.size();
			nodeCb.push_back(cb);
			auto & nodes = lists[slot].nodes;
			auto it = std::find(nodes.begin(), nodes.end(), h);
			if(h >= 0 && it != nodes.end()) {
				if(it != nodes.begin()) sawInsertLiveNonHead = true;
				nodes.insert(it, node);
			}
			else {
				if(h >= 0) { sawStaleOp = true; if(! frames.empty()) insertBeforeRemoved = true; }
				nodes.push_back(node);
			}
			log << '(' << slot << ":n" << node << " before h" << h << ")";
			lib->insert(slot, cb, h);
			checkAdded(slot);
			break;
		}
		case K_REMOVE: {
			if(slot < 0) break;
			int h = resolveHandle(op.a, self);
			int where = h >= 0 ? findList(h) : -1;
			if(where >= 0 && where != slot) { ++skippedForeign; log << "(skip-foreign)"; break; }
			auto & nodes = lists[slot].nodes;
			auto it = std::find(nodes.begin(), nodes.end(), h);
			bool expect = false;
			if(h >= 0 && it != nodes.end()) {
				nodes.erase(it);
				expect = true;
				sawRemoveLive = true;
				if(! frames.empty()) {
					mutatedDuringInvoke = true;
					removedDuringInvocation = true;
					if(h == self) selfRemove = true;
					if(frames.size() >= 2 && h == frames[frames.size() - 2].currentNode) removeOuterCurrent = true;
				}
			}
			else if(h >= 0) {
				sawStaleOp = true;
				if(! frames.empty() && h == lastRemoved) doubleRemove = true;
			}
			if(h >= 0) lastRemoved = h;
			bool got = lib->remove(slot, h);
			log << "(" << slot << ":h" << h << ")=" << got;
			if(got != expect) {
				fail("cbl.remove.result", domainProp(), "remove(h" + std::to_string(h) + ") returned " + std::to_string(got) + ", model says " + std::to_string(expect));
			}
			break;
		}
		case K_OWNS: {
			if(slot < 0) break;
			int h = resolveHandle(op.a, self);
			bool expect = h >= 0 && inList(slot, h);
			if(h >= 0 && ! expect) sawStaleOp = true;
			bool got = lib->owns(slot, h);
			log << "(" << slot << ":h" << h << ")=" << got;
			if(got != expect) {
				fail("cbl.owns.result", domainProp(), "ownsHandle(h" + std::to_string(h) + ") returned " + std::to_string(got) + ", model says " + std::to_string(expect));
			}
			break;
		}
		case K_EMPTY: {
			if(slot < 0) break;
			bool expect = lists[slot].nodes.empty();
			bool got = lib->empty(slot);
			bool gotB = lib->asBool(slot);
			if(got != expect || gotB == expect) {
				fail("cbl.empty.result", domainProp(), "empty() returned " + std::to_string(got) + "/bool " + std::to_string(gotB) + ", model says empty=" + std::to_string(expect));
			}
			break;
		}
		case K_INVOKE: {
			if(slot < 0) break;
			if((int)frames.size() >= kMaxDepth || fuel <= 0) { log << "(skip)"; break; }
			doInvoke(slot, op.a, op.b);
			break;
		}
		case K_FOREACH: {
			if(slot < 0) break;
			enumerateAndCompare(slot, op.b & 1, "forEach");
			break;
		}
		case K_FOREACHIF: {
			if(slot < 0) break;
			int stop = op.a < 0 ? 0 : op.a;
			std::vector<std::pair<int, int> > got;
			bool r = lib->forEachIf(slot, op.b & 1, stop, got);
			const auto & nodes = lists[slot].nodes;
			size_t expN = std::min(nodes.size(), (size_t)stop + 1);
			bool expR = nodes.size() <= (size_t)stop;
			bool same = got.size() == expN;
			for(size_t i = 0; same && i < expN; ++i) {
				if(got[i].second != nodeCb[nodes[i]]) same = false;
				if((op.b & 1) == 0 && got[i].first != nodes[i]) same = false;
			}
			if(! same || r != expR) {
				fail("cbl.forEachIf", domainProp(), "forEachIf visited " + std::to_string(got.size()) + " (expected " + std::to_string(expN) + ") returned " + std::to_string(r) + " (expected " + std::to_string(expR) + ")");
			}
			break;
		}
		case K_HAS: case K_REMOVEL: case K_HASANY: {
			if(slot < 0 || ! impl->hasUtil() || cbBody.empty()) break;
			int cb = ((op.a % (int)cbBody.size()) + (int)cbBody.size()) % (int)cbBody.size();
			auto & nodes = lists[slot].nodes;
			auto it = std::find_if(nodes.begin(), nodes.end(), [&](int n) { return nodeCb[n] == cb; });
			int expect;
			int which = op.kind == K_HAS ? 0 : (op.kind == K_REMOVEL ? 1 : 2);
			if(which == 2) expect = nodes.empty() ? 0 : 1;
			else expect = it != nodes.end() ? 1 : 0;
			if(which == 1 && it != nodes.end()) {
				lastRemoved = *it;
				nodes.erase(it);
				sawRemoveLive = true;
				if(! frames.empty()) { mutatedDuringInvoke = true; removedDuringInvocation = true; }
			}
			int got = lib->util(slot, which, cb);
			log << "(cb" << cb << ")=" << got;
			if(got != expect) {
				fail("cbl.util.result", domainProp(), std::string(kindName(op.kind)) + "(cb" + std::to_string(cb) + ") returned " + std::to_string(got) + ", model says " + std::to_string(expect));
			}
			break;
		}
		case K_NEWLIST: {
			int d = pickDead();
			if(d < 0) break;
			lists[d].alive = true;
			lists[d].nodes.clear();
			lib->newList(d, op.b);
			if(op.b & 3) dirtyStorage = true;
			lastCounter[d] = impl->counter(d);
			break;
		}
		case K_COPYCTOR: {
			int src = pickLive(op.b);
			int d = pickDead();
			if(src < 0 || d < 0) break;
			lists[d].alive = true;
			lists[d].nodes.clear();
			lib->copyCtor(src, d, op.a);
			if(op.a & 3) dirtyStorage = true;
			adoptCopy(d, src);
			transferStage = 1;
			break;
		}
		case K_COPYASSIGN: {
			int src = pickLive(op.b);
			if(src < 0 || slot < 0 || slotBusy(slot)) break;
			lib->copyAssign(slot, src);
			if(src != slot) {
				lists[slot].nodes.clear();
				adoptCopy(slot, src);
			}
			transferStage = 1;
			break;
		}
		case K_MOVECTOR: {
			int src = pickLive(op.b);
			int d = pickDead();
			if(src < 0 || d < 0 || slotBusy(src)) break;
			std::vector<int> pool = lists[src].nodes;
			lists[d].alive = true;
			lists[d].nodes = lists[src].nodes;
			lists[src].nodes.clear();
			lib->moveCtor(src, d, op.a);
			if(op.a & 3) dirtyStorage = true;
			lastCounter[d] = impl->counter(d);
			lastCounter[src] = impl->counter(src);
			adoptMovedFrom(src, d, pool);
			transferStage = 1;
			break;
		}
		case K_MOVEASSIGN: {
			int src = pickLive(op.b);
			if(src < 0 || slot < 0 || slotBusy(slot) || slotBusy(src)) break;
			if(src == slot) break; // self-move-assignment: the statement says nothing about it
			std::vector<int> pool = lists[src].nodes;
			pool.insert(pool.end(), lists[slot].nodes.begin(), lists[slot].nodes.end());
			lists[slot].nodes = lists[src].nodes;
			lists[src].nodes.clear();
			lib->moveAssign(slot, src);
			lastCounter[slot] = impl->counter(slot);
			lastCounter[src] = impl->counter(src);
			adoptMovedFrom(src, slot, pool);
			transferStage = 1;
			break;
		}
		case K_SWAP: {
			int other = pickLive(op.b);
			if(other < 0 || slot < 0 || slotBusy(slot) || slotBusy(other)) break;
			std::swap(lists[slot].nodes, lists[other].nodes);
			lib->swapLists(slot, other, op.a);
			lastCounter[slot] = impl->counter(slot);
			lastCounter[other] = impl->counter(other);
			transferStage = 1;
			break;
		}
		case K_DESTROY: {
			if(slot < 0 || slotBusy(slot)) break;
			int live = 0;
			for(int s = 0; s < kMaxLists; ++s) if(lists[s].alive) ++live;
			if(live <= 1) break;
			if(! lists[slot].nodes.empty()) destroyedNonEmpty = true;
			lists[slot].alive = false;
			lists[slot].nodes.clear();
			lib->destroyList(slot);
			break;
		}
		case K_CHURN: {
			if(slot < 0) break;
			int n = op.a < 0 ? 0 : op.a;
			impl->churn(slot, n);
			if(n > 1000) counterGap = true;
			noteCounter(slot);
			break;
		}
		case K_NEARWRAP: {
			if(slot < 0) break;
			impl->nearWrap(slot, op.a < 0 ? 0 : op.a);
			lastCounter[slot] = impl->counter(slot);
			log << "(" << slot << ":max-" << op.a << ")";
			break;
		}
		default:
			break;
		}
		if(transferStage >= 1 && (op.kind == K_APPEND || op.kind == K_PREPEND || op.kind == K_INSERT || op.kind == K_REMOVE)) transferStage = 2;
		if(checkedState().unbalanced) fail("cbl.mutex.unbalanced", "C02", "unlock of a mutex that was not locked");
		(void)depth;
	}

	// a copy produced new nodes in `dst` mirroring `src`
	void adoptCopy(int dst, int src) {
		const std::vector<int> from = lists[src].nodes;
		for(int n : from) {
			int node = (int)nodeCb.size();
			nodeCb.push_back(nodeCb[n]);
			lists[dst].nodes.push_back(node);
		}
		int got = impl->harvest(dst, (int)from.size());
		if(got != (int)from.size()) {
			fail("cbl.copy.size", "C10,C19,C08,C09", "copy holds " + std::to_string(got) + " callbacks, source has " + std::to_string(from.size()));
		}
		lastCounter[dst] = impl->counter(dst);
	}

	// the statement only says a moved-from source stays valid: adopt what it reports, provided it shares
	// nothing with the destination and invents nothing
	void adoptMovedFrom(int src, int dst, const std::vector<int> & pool) {
		std::vector<std::pair<int, int> > got;
		impl->forEach(src, 0, got);
		std::vector<int> adopted;
		for(const auto & g : got) {
			if(g.first < 0 || std::find(pool.begin(), pool.end(), g.first) == pool.end()) {
				fail("cbl.movedfrom.invented", "C10,C19", "moved-from list reports a callback it never held");
				return;
			}
			if(inList(dst, g.first)) {
				fail("cbl.movedfrom.shared", "C10,C19", "moved-from list still shares a callback with the destination");
				return;
			}
			adopted.push_back(g.first);
		}
		lists[src].nodes = adopted;
	}

	void enumerateAndCompare(int slot, int form, const char * what) {
		std::vector<std::pair<int, int> > got;
		impl->forEach(slot, form, got);
		const auto & nodes = lists[slot].nodes;
		bool same = got.size() == nodes.size();
		for(size_t i = 0; same && i < nodes.size(); ++i) {
			if(got[i].second != nodeCb[nodes[i]]) same = false;
			if(form == 0 && got[i].first != nodes[i]) same = false;
		}
		if(! same) {
			std::ostringstream m;
			m << what << " on list " << slot << " saw [";
			for(const auto & g : got) m << " n" << g.first << "/cb" << g.second;
			m << " ] model [";
			for(int n : nodes) m << " n" << n << "/cb" << nodeCb[n];
			m << " ]";
			fail("cbl.enumerate", domainProp(), m.str());
		}
		if(mutatedDuringInvoke) observedAfterMutation = true;
	}

	void doInvoke(int slot, int arg, int how) {
		Frame f;
		f.slot = slot;
		f.snap = lists[slot].nodes;
		f.arg = arg;
		f.firstNewNode = (int)nodeCb.size();
		frames.push_back(f);
		if(frames.size() >= 2) nested2 = true;
		if(sawInsertLiveNonHead && sawRemoveLive && sawStaleOp) invokeAfter = true;
		if(mutatedDuringInvoke) observedAfterMutation = true;
		if(wrapped) ++invokesAfterWrap;
		log << "(" << slot << "){";
		int serial = nextSerial++;
		int r = lib->invoke(slot, arg, serial, how);
		log << "}";
		if(failed) { frames.pop_back(); return; }
		Frame & fr = frames.back();
		// every remaining snapshot node must have been removed by now
		while(fr.cursor < fr.snap.size()) {
			int n = fr.snap[fr.cursor];
			if(inList(findListOfFrame(fr), n)) {
				fail("cbl.invoke.missed", domainProp(), "invocation returned without calling n" + std::to_string(n) + "/cb" + std::to_string(nodeCb[n]) + " which was in the list from start to end");
				break;
			}
			++fr.cursor;
		}
		if(! failed) {
			const int proto = impl->proto();
			if(proto == 2 && r != arg + fr.calls) {
				fail("cbl.invoke.refarg", domainProp(), "int& argument after invocation is " + std::to_string(r) + ", expected " + std::to_string(arg + fr.calls));
			}
			if((proto == 0 || proto == 1) && r != 0) {
				fail("cbl.invoke.callerarg", domainProp(), "the caller's argument object was modified or moved from by the invocation");
			}
		}
		frames.pop_back();
	}
	int findListOfFrame(const Frame & f) const { return f.slot; }

	void onCall(int cb, const ArgView & a) {
		if(failed) return;
		if(frames.empty()) {
			fail("cbl.call.spurious", domainProp(), "callback cb" + std::to_string(cb) + " called outside any invocation");
			return;
		}
		Frame & f = frames.back();
		const std::vector<int> & cur = lists[f.slot].nodes;
		// next expected: first snapshot node at/after the cursor that is still in the list
		size_t c = f.cursor;
		while(c < f.snap.size() && ! inList(f.slot, f.snap[c])) ++c;
		int node = -1;
		if(c < f.snap.size() && nodeCb[f.snap[c]] == cb) {
			node = f.snap[c];
			f.cursor = c + 1;
		}
		else if(f.relaxed) {
			// C19: an invocation in progress at the wrap may also call callbacks added during it,
			// each at most once and in list order
			auto lastPos = f.lastCalledNode >= 0 ? std::find(cur.begin(), cur.end(), f.lastCalledNode) : cur.end();
			auto from = lastPos == cur.end() ? cur.begin() : lastPos + 1;
			for(auto it = from; it != cur.end(); ++it) {
				if(*it >= f.firstNewNode && nodeCb[*it] == cb && ! f.extraCalled.count(*it)) {
					node = *it;
					f.extraCalled.insert(node);
					break;
				}
				if(*it < f.firstNewNode && c < f.snap.size() && *it == f.snap[c]) break; // must not jump over the next expected
			}
		}
		if(node < 0) {
			std::string exp = c < f.snap.size() ? ("n" + std::to_string(f.snap[c]) + "/cb" + std::to_string(nodeCb[f.snap[c]])) : std::string("none");
			fail("cbl.invoke.order", f.relaxed ? "C19" : domainProp(), "invocation called cb" + std::to_string(cb) + " but the next callback due is " + exp);
			return;
		}
		log << " >cb" << cb;
		// arguments
		bool argOk = true;
		switch(a.proto) {
		case 0: argOk = a.i == f.arg && a.t->intact() && a.t->value == f.arg * 3 + 1; break;
		case 1: argOk = a.t->intact() && a.t->value == f.arg * 3 + 1; break;
		case 2: argOk = *a.ref == f.arg + f.calls; ++*a.ref; break;
		default: break;
		}
		if(! argOk) {
			fail("cbl.invoke.args", domainProp(), "callback cb" + std::to_string(cb) + " (call #" + std::to_string(f.calls) + ") did not receive the invocation's arguments intact");
			return;
		}
		if(! multi && g_cbSerial >= 0) {
			// (only without copies of lists: a copied list holds copies of the callbacks, with their state)
			if((size_t)g_cbSerial >= callsOfSerial.size()) callsOfSerial.resize((size_t)g_cbSerial + 1, 0);
			if(++callsOfSerial[(size_t)g_cbSerial] != g_cbOwnCalls) {
				fail("cbl.callback.state", domainProp(), "callback cb" + std::to_string(cb) + " has been called " + std::to_string(callsOfSerial[(size_t)g_cbSerial]) + " time(s), but the object that ran counts " + std::to_string(g_cbOwnCalls)
					+ " call(s) of its own: the invocation did not call the callback object stored in the list (state kept inside a callback is lost)");
				return;
			}
		}
		++f.calls;
		f.lastCalledNode = node;
		f.currentNode = node;
		if(--fuel > 0) {
			const std::vector<Op> * body = cbBody[cb];
			if(body && ! body->empty()) {
				const int slotNow = f.slot; (void)slotNow;
				exec(*body, (int)frames.size(), node);
			}
		}
		log << " <";
	}

	// ---- checks at depth 0

	void quiescent() {
		// C01: empty() always describes the content
		for(int s = 0; s < kMaxLists; ++s) {
			if(! lists[s].alive) continue;
			bool e = impl->empty(s);
			if(e != lists[s].nodes.empty()) {
				fail("cbl.empty.state", domainProp(), "empty() is " + std::to_string(e) + " but the model holds " + std::to_string(lists[s].nodes.size()) + " callbacks");
				return;
			}
		}
		ledgerCheck();
	}

	void ledgerCheck() {
		if(ledger().isFlagged()) {
			fail("ledger.flag", "C08", ledger().message());
			return;
		}
		// every callback that is in no list must have been released; every node holds a live callback
		std::vector<int> count(cbBody.size(), 0);
		for(int s = 0; s < kMaxLists; ++s) {
			if(! lists[s].alive) continue;
			for(int n : lists[s].nodes) ++count[nodeCb[n]];
		}
		for(size_t cb = 0; cb < count.size(); ++cb) {
			int live = ledger().live(kCbBase + (int)cb);
			if(count[cb] == 0 && live != 0) {
				fail("ledger.cb.notreleased", "C08", "callback cb" + std::to_string(cb) + " is in no list and no invocation is running, but " + std::to_string(live) + " instance(s) are still alive");
				return;
			}
			if(live < count[cb]) {
				fail("ledger.cb.missing", "C08," + domainProp(), "callback cb" + std::to_string(cb) + " is in " + std::to_string(count[cb]) + " node(s) but only " + std::to_string(live) + " instance(s) are alive");
				return;
			}
		}
	}

	void deepProbe() {
		ChoiceSource ch(prog, fnv1a(toText(prog)));
		for(int s = 0; s < kMaxLists && ! failed; ++s) {
			if(! lists[s].alive) continue;
			enumerateAndCompare(s, 0, "final forEach");
			if(failed) return;
			for(int h = 0; h < (int)nodeCb.size() && ! failed; ++h) {
				bool expect = inList(s, h);
				bool got = impl->owns(s, h);
				if(got != expect) {
					fail("cbl.probe.owns", domainProp(), "final ownsHandle(h" + std::to_string(h) + ") on list " + std::to_string(s) + " is " + std::to_string(got) + ", model says " + std::to_string(expect));
				}
			}
			// remove the survivors in a generated order, re-enumerating after each removal
			while(! failed && ! lists[s].nodes.empty()) {
				size_t k = ch.below((uint32_t)lists[s].nodes.size());
				int n = lists[s].nodes[k];
				lists[s].nodes.erase(lists[s].nodes.begin() + (long)k);
				bool got = impl->remove(s, n);
				if(! got) {
					fail("cbl.probe.remove", domainProp(), "final remove(h" + std::to_string(n) + ") returned false for a callback that is in the list");
					break;
				}
				enumerateAndCompare(s, (int)(k & 1), "probe forEach");
			}
			if(! failed && ! impl->empty(s)) {
				fail("cbl.probe.empty", domainProp(), "list not empty after removing every callback");
			}
		}
	}

	void run() {
		const int cfg = prog.params.empty() ? 0 : ((prog.params[0] % kConfigs) + kConfigs) % kConfigs;
		impl.reset(makeImpl(cfg));
		lib.p = impl.get();
		multi = prop == "C10" || prop == "C19" || prop == "C08" || prop == "C09";
		allowReuse = true;
		lists[0].alive = true;
		impl->newList(0, prog.params.size() > 1 ? prog.params[1] : 0);
		lastCounter[0] = impl->counter(0);
		try {
			FaultPause harnessCode;
			exec(prog.ops, 0, -1);
			if(! failed) deepProbe();
			if(! failed) quiescent();
		}
		catch(const DeadlockDetected &) {
			frames.clear();
			fail("cbl.deadlock", "C02", "a mutex was locked again by the thread that holds it (operation issued from inside a callback)");
		}
		frames.clear();
		// destroy everything: nothing may stay alive
		for(int s = 0; s < kMaxLists; ++s) {
			if(lists[s].alive) { lists[s].alive = false; lists[s].nodes.clear(); }
		}
		impl.reset();
		if(! failed) {
			if(ledger().isFlagged()) fail("ledger.flag", "C08", ledger().message());
			else if(ledger().totalLive() != 0) {
				fail("ledger.leak", "C08", std::to_string(ledger().totalLive()) + " tracked object(s) still alive after every list was destroyed (first id " + std::to_string(ledger().anyLiveIn(0, 1 << 30)) + ")");
			}
		}
	}
};

void deliver(int cb, const ArgView & v)
{
	faults().point(1); // a callback may throw on entry (C09); everything it does afterwards runs with the injector paused
	FaultPause fp, fp2; // twice: library calls issued from callback scripts (lib-> un-pauses once) stay paused
	if(g_interp) g_interp->onCall(cb, v);
}

// ---------------------------------------------------------------- grammar

Grammar makeGrammar(const std::string & prop)
{
	Grammar g;
	g.params = { ArgSpec(0, kConfigs - 1), ArgSpec(0, 3) };
	g.maxSched = 16;
	g.maxDepth = 3;
	g.maxTotalOps = 160;
	const bool nested = prop != "C01";
	const bool multi = prop == "C10" || prop == "C19" || prop == "C08" || prop == "C09";
	const bool wrap = prop == "C19" || prop == "C09"; // C09: an add that fails exactly at the wrap must leave the list as it was
	const ArgSpec H(0, 40, -6, -1, 35);       // handle operand: index or special
	const ArgSpec HS(0, 40, -6, -1, 60);      // inside scripts: favour self / last removed / ...
	const ArgSpec slotArg = multi ? ArgSpec(0, 3) : ArgSpec(0, 0);
	const ArgSpec reuse = nested ? ArgSpec(0, 0) : ArgSpec(0, 12, 0, 0, 70);
	const int bodyLevel = nested ? 1 : -1;
	Level top;
	top.minOps = 1;
	top.maxOps = prop == "C01" ? 80 : 40;
	top.kinds = {
		{ K_APPEND, "append", 14, ArgSpec(0, 0), reuse, slotArg, bodyLevel, 6 },
		{ K_PREPEND, "prepend", 7, ArgSpec(0, 0), reuse, slotArg, bodyLevel, 6 },
		{ K_INSERT, "insert", 10, H, ArgSpec(0, 0), slotArg, bodyLevel, 6 },
		{ K_REMOVE, "remove", 10, H, ArgSpec(0, 0), slotArg, -1, 0 },
		{ K_OWNS, "owns", 4, H, ArgSpec(0, 0), slotArg, -1, 0 },
		{ K_EMPTY, "empty", 2, ArgSpec(0, 0), ArgSpec(0, 0), slotArg, -1, 0 },
		{ K_INVOKE, "invoke", 14, ArgSpec(-1000, 1000), ArgSpec(0, 1), slotArg, -1, 0 },
		{ K_FOREACH, "forEach", 4, ArgSpec(0, 0), ArgSpec(0, 1), slotArg, -1, 0 },
		{ K_FOREACHIF, "forEachIf", 3, ArgSpec(0, 5), ArgSpec(0, 1), slotArg, -1, 0 },
		{ K_HAS, "hasListener", nested ? 1 : 3, ArgSpec(0, 30), ArgSpec(0, 0), slotArg, -1, 0 },
		{ K_REMOVEL, "removeListener", nested ? 1 : 4, ArgSpec(0, 30), ArgSpec(0, 0), slotArg, -1, 0 },
		{ K_HASANY, "hasAnyListener", 1, ArgSpec(0, 0), ArgSpec(0, 0), slotArg, -1, 0 },
	};
	if(multi) {
		const int w = prop == "C10" ? 6 : (prop == "C08" || prop == "C09") ? 4 : 2;
		top.kinds.push_back({ K_NEWLIST, "newList", w, ArgSpec(0, 0), ArgSpec(0, 3), ArgSpec(0, 0), -1, 0 });
		top.kinds.push_back({ K_COPYCTOR, "copyCtor", w, ArgSpec(0, 3), ArgSpec(0, 3), ArgSpec(0, 0), -1, 0 });
		top.kinds.push_back({ K_COPYASSIGN, "copyAssign", w, ArgSpec(0, 0), ArgSpec(0, 3), slotArg, -1, 0 });
		top.kinds.push_back({ K_MOVECTOR, "moveCtor", w, ArgSpec(0, 3), ArgSpec(0, 3), ArgSpec(0, 0), -1, 0 });
		top.kinds.push_back({ K_MOVEASSIGN, "moveAssign", w, ArgSpec(0, 0), ArgSpec(0, 3), slotArg, -1, 0 });
		top.kinds.push_back({ K_SWAP, "swap", w, ArgSpec(0, 1), ArgSpec(0, 3), slotArg, -1, 0 });
		top.kinds.push_back({ K_DESTROY, "destroy", w / 2, ArgSpec(0, 0), ArgSpec(0, 0), slotArg, -1, 0 });
		top.kinds.push_back({ K_CHURN, "churn", w / 2, ArgSpec(1, 3000), ArgSpec(0, 0), slotArg, -1, 0 });
	}
	if(wrap) {
		top.kinds.push_back({ K_NEARWRAP, "nearWrap", 8, ArgSpec(0, 12, 0, 1, 45), ArgSpec(0, 0), slotArg, -1, 0 });
	}
	g.levels.push_back(top);
	if(nested) {
		Level body;
		body.kinds = {
			{ K_APPEND, "append", 8, ArgSpec(0, 0), ArgSpec(0, 0), slotArg, 1, 3 },
			{ K_PREPEND, "prepend", 4, ArgSpec(0, 0), ArgSpec(0, 0), slotArg, 1, 3 },
			{ K_INSERT, "insert", 10, HS, ArgSpec(0, 0), slotArg, 1, 3 },
			{ K_REMOVE, "remove", 16, HS, ArgSpec(0, 0), slotArg, -1, 0 },
			{ K_OWNS, "owns", 5, HS, ArgSpec(0, 0), slotArg, -1, 0 },
			{ K_EMPTY, "empty", 1, ArgSpec(0, 0), ArgSpec(0, 0), slotArg, -1, 0 },
			{ K_INVOKE, "invoke", 5, ArgSpec(-1000, 1000), ArgSpec(0, 1), slotArg, -1, 0 },
			{ K_FOREACH, "forEach", 3, ArgSpec(0, 0), ArgSpec(0, 1), slotArg, -1, 0 },
			{ K_FOREACHIF, "forEachIf", 1, ArgSpec(0, 5), ArgSpec(0, 1), slotArg, -1, 0 },
			{ K_REMOVEL, "removeListener", 1, ArgSpec(0, 30), ArgSpec(0, 0), slotArg, -1, 0 },
		};
		if(multi) {
			body.kinds.push_back({ K_COPYCTOR, "copyCtor", 1, ArgSpec(0, 3), ArgSpec(0, 3), ArgSpec(0, 0), -1, 0 });
		}
		if(wrap) {
			body.kinds.push_back({ K_NEARWRAP, "nearWrap", 4, ArgSpec(0, 6, 0, 1, 45), ArgSpec(0, 0), slotArg, -1, 0 });
		}
		g.levels.push_back(body);
	}
	return g;
}

const Grammar & grammar(const std::string & prop)
{
	static std::map<std::string, Grammar> cache;
	auto it = cache.find(prop);
	if(it == cache.end()) it = cache.insert(std::make_pair(prop, makeGrammar(prop))).first;
	return it->second;
}

long g_caseCounter = 0;

Verdict runOnce(const Program & p, const std::string & prop, FaultPlan * plan)
{
	Verdict v;
	v.trace.reserve(4096);
	v.classes.reserve(32);
	ledger().reset();
	faults().reset();
	checkedState().reset();
	LeakScope scope;
	{
		Interp in(p, prop, v);
		in.plan = plan;
		g_interp = &in;
		in.run();
		g_interp = nullptr;

		// classes and non-triviality (rules: DESIGN section 3)
		auto cls = [&](bool b, const char * n) { if(b) v.classes.push_back(n); };
		cls(in.sawInsertLiveNonHead, "insert_before_live_nonhead");
		cls(in.sawRemoveLive, "remove_live");
		cls(in.sawStaleOp, "op_through_stale_handle");
		cls(in.mutatedDuringInvoke, "mutation_during_invocation");
		cls(in.selfRemove, "self_remove");
		cls(in.doubleRemove, "double_remove_in_callback");
		cls(in.insertBeforeRemoved, "insert_before_removed_in_callback");
		cls(in.nested2, "nested_invocation");
		cls(in.removeOuterCurrent, "remove_outer_current_from_nested");
		cls(in.transferStage == 2, "transfer_then_mutation");
		cls(in.dirtyStorage, "dirty_storage");
		cls(in.counterGap, "counter_gap_over_1000");
		cls(in.wrapped, "counter_wrapped");
		cls(in.removedDuringInvocation, "removed_during_invocation");
		cls(in.destroyedNonEmpty, "destroyed_nonempty");
		cls(in.skippedForeign > 0, "skipped_foreign_handle_op");
		if(prop == "C01") v.nontrivial = in.sawInsertLiveNonHead && in.sawRemoveLive && in.sawStaleOp && in.invokeAfter;
		else if(prop == "C02") v.nontrivial = in.mutatedDuringInvoke && in.observedAfterMutation;
		else if(prop == "C10") v.nontrivial = in.transferStage == 2;
		else if(prop == "C19") v.nontrivial = in.wrapped && in.wrapWith2 && in.invokesAfterWrap >= 2 && in.addDuringInvokeAfterWrap;
		else if(prop == "C08") v.nontrivial = in.removedDuringInvocation || in.destroyedNonEmpty;
		else v.nontrivial = true;
		{
			const std::string full = in.log.str();
			v.trace.assign(full, 0, std::min<size_t>(full.size(), 4000));
		}
	}
	ledger().reset(); // drops the per-id tables, so that only library allocations can outlive the scope
	if(v.ok && (scope.grew() || (++g_caseCounter & 1023) == 0)) {
		v.classes.push_back("lsan_confirmation_run");
		if(confirmLeak()) {
			v.fail("lsan.leak", plan ? "C08,C09" : "C08", "LeakSanitizer: memory allocated during the case is unreachable after every list was destroyed", "lsan.leak");
		}
	}
	if(! v.ok && plan && ! plan->counting && v.prop == "C08") v.prop = "C08,C09"; // a leak / double destruction after an exception is C09's too
	return v;
}

Verdict run(const Program & p, const std::string & prop)
{
#ifdef VF_FAULTS
	// the fault variant also serves C08: "destroyed exactly once, never leaked ... including exceptions"
	const bool inject = prop == "C09" || prop == "C08";
#else
	const bool inject = prop == "C09";
#endif
	if(! inject) return runOnce(p, prop, nullptr);
	return faultOrchestrate(p, [&](const Program & q, FaultPlan & plan, Verdict & out) { out = runOnce(q, prop, &plan); });
}

} // namespace

namespace vf {
const Harness g_harness = { "cbl", &grammar, &run, &kindName, nullptr };
}
