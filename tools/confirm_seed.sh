#!/bin/bash
# usage: tools/confirm_seed.sh <PROP> <worktree> <name> [extra g++ flags]
# Confirms a seeded change independently: unit tests pass with it, demo fails with it and passes on /repo's headers.
# On success copies patch.diff, demo.cpp, notes.txt into /verif/seeded/<name>/ and writes confirm.log there.
P=$1; WT=$2; NAME=$3; shift 3; EXTRA="$@"
OUT=/verif/seeded/$NAME
mkdir -p $OUT
LOG=$OUT/confirm.log
{
echo "property: $P   worktree: $WT   date: $(date -u)"
echo "--- patch applies to /repo HEAD?"
git -C /repo apply --check $WT/_seed/patch.diff && echo "applies: yes" || echo "applies: NO"
echo "--- unit tests with the change (tools/unittest.sh)"
/verif/tools/unittest.sh $WT 2>&1 | tail -2
echo "--- demo with the change"
g++ -std=c++17 -O1 $EXTRA -I$WT/include $WT/_seed/demo.cpp -o /var/tmp/demo_$NAME.mut -lpthread && (timeout 120 /var/tmp/demo_$NAME.mut > /var/tmp/demo_$NAME.mut.out 2>&1; echo "exit=$?"; tail -3 /var/tmp/demo_$NAME.mut.out)
echo "--- demo on the unmodified tree (/repo/include)"
g++ -std=c++17 -O1 $EXTRA -I/repo/include $WT/_seed/demo.cpp -o /var/tmp/demo_$NAME.orig -lpthread && (timeout 120 /var/tmp/demo_$NAME.orig > /var/tmp/demo_$NAME.orig.out 2>&1; echo "exit=$?"; tail -2 /var/tmp/demo_$NAME.orig.out)
rm -f /var/tmp/demo_$NAME.*
} > $LOG 2>&1
cp $WT/_seed/patch.diff $WT/_seed/demo.cpp $WT/_seed/notes.txt $OUT/ 2>/dev/null
cat $LOG | grep -E "applies|All tests|exit=|FAILED" 
