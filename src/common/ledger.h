// Ledger: every construction / destruction / use of a harness-owned user object is recorded by address.
// Fault points: every instrumented user operation may throw when the injector is armed (DESIGN 2.4, 2.6).
#ifndef VERIF_LEDGER_H
#define VERIF_LEDGER_H

#include <cstdint>
#include <mutex>
#include <string>
#include <unordered_map>
#include <exception>
#include <new>

namespace vf {

struct Injected : std::exception
{
	const char * what() const noexcept override { return "vf::Injected"; }
};

struct Faults
{
	long countdown = -1; // > 0: armed, the countdown-th point from now throws
	long seen = 0;       // number of fault points passed since the last reset
	int paused = 0;
	long fired = 0;
	bool allocEnabled = false; // allocation points count / fire only when enabled
	int lastKind = 0;

	void reset() { countdown = -1; seen = 0; paused = 0; fired = 0; lastKind = 0; }
	void arm(long k) { countdown = k; seen = 0; }
	void disarm() { countdown = -1; }
	bool armed() const { return countdown > 0; }

	// kinds: 1 callback, 2 callback copy, 3 payload copy, 4 key op, 5 predicate/filter/condition, 6 allocation, 7 payload move
	bool tick(int kind) {
		if(paused > 0) return false;
#if __cplusplus >= 201703L
		if(std::uncaught_exceptions() > 0) return false;
#else
		if(std::uncaught_exception()) return false;
#endif
		++seen;
		if(countdown > 0 && --countdown == 0) {
			countdown = -1;
			++fired;
			lastKind = kind;
			return true;
		}
		return false;
	}
	void point(int kind) {
		if(tick(kind)) throw Injected();
	}
};

inline Faults & faults()
{
	static Faults f;
	return f;
}

struct FaultPause
{
	FaultPause() { ++faults().paused; }
	~FaultPause() { --faults().paused; }
};

class Ledger
{
public:
	void reset() {
		FaultPause fp;
		std::lock_guard<std::mutex> g(m);
		if(! reserved) {
			// keep the bucket arrays from growing during a case (the per-case leak trigger compares heap sizes)
			alive.reserve(1 << 15);
			liveById.reserve(1 << 15);
			flagMsg.reserve(512);
			reserved = true;
		}
		alive.clear();
		liveById.clear();
		flagged = false;
		flagMsg.clear();
		ctors = copies = moves = dtors = 0;
	}

	void onCtor(const void * p, int id, int how) {
		FaultPause fp;
		std::lock_guard<std::mutex> g(m);
		auto it = alive.find(p);
		if(it != alive.end()) {
			flag("construction over a live object (id " + std::to_string(it->second) + " by id " + std::to_string(id) + ")");
		}
		alive[p] = id;
		++liveById[id];
		if(how == 0) ++ctors; else if(how == 1) ++copies; else ++moves;
	}

	void onDtor(const void * p, int id) {
		FaultPause fp;
		std::lock_guard<std::mutex> g(m);
		auto it = alive.find(p);
		if(it == alive.end()) {
			flag("destruction of an object that is not alive (double destruction?) id " + std::to_string(id));
			return;
		}
		if(it->second != id) {
			flag("destruction through wrong identity: ledger id " + std::to_string(it->second) + " object id " + std::to_string(id));
		}
		--liveById[it->second];
		alive.erase(it);
		++dtors;
	}

	void onUse(const void * p, int id) {
		FaultPause fp;
		std::lock_guard<std::mutex> g(m);
		auto it = alive.find(p);
		if(it == alive.end()) {
			flag("use of an object that is not alive, id " + std::to_string(id));
		}
		else if(it->second != id) {
			flag("use of an object with wrong identity: ledger id " + std::to_string(it->second) + " object id " + std::to_string(id));
		}
	}

	int live(int id) {
		std::lock_guard<std::mutex> g(m);
		auto it = liveById.find(id);
		return it == liveById.end() ? 0 : it->second;
	}

	long totalLive() {
		std::lock_guard<std::mutex> g(m);
		return (long)alive.size();
	}

	// smallest live id in [lo, hi) or -1 (deterministic: scans ids, not the address map)
	int anyLiveIn(int lo, int hi) {
		std::lock_guard<std::mutex> g(m);
		int best = -1;
		for(const auto & kv : liveById) {
			if(kv.second > 0 && kv.first >= lo && kv.first < hi && (best < 0 || kv.first < best)) best = kv.first;
		}
		return best;
	}

	void flag(const std::string & msg) {
		if(! flagged) {
			flagged = true;
			flagMsg = msg;
		}
	}
	void flagExternal(const std::string & msg) {
		FaultPause fp;
		std::lock_guard<std::mutex> g(m);
		flag(msg);
	}

	bool isFlagged() const { return flagged; }
	const std::string & message() const { return flagMsg; }

	long ctors = 0, copies = 0, moves = 0, dtors = 0;

private:
	std::mutex m;
	std::unordered_map<const void *, int> alive;
	std::unordered_map<int, int> liveById;
	bool flagged = false;
	bool reserved = false;
	std::string flagMsg;
};

inline Ledger & ledger()
{
	static Ledger l;
	return l;
}

// optional observer of destructions (used by the concurrent harness to attribute discarded events to clearEvents)
using DtorHook = void (*)(int id);
inline DtorHook & dtorHook()
{
	static DtorHook h = nullptr;
	return h;
}

// optional observer called at the start of every copy / move of a ledgered value (the concurrent harness makes it a
// scheduling point, so that a copy made outside the lock that should protect its source can be interleaved with the
// consumer that destroys or reuses the source)
using CopyHook = void (*)();
inline CopyHook & copyHook()
{
	static CopyHook h = nullptr;
	return h;
}

// Id spaces
enum { kCbBase = 1000000, kPayloadBase = 2000000, kKeyBase = 3000000, kAuxBase = 4000000 };

// A ledgered value: the base of payloads, callbacks, keys. `id` is the logical identity (copies share it).
// The magic word is tied to the address, so bytes copied from elsewhere or never constructed are detected.
template <int FaultKindCopy, bool ThrowingMove = false>
class LedgeredT
{
public:
	explicit LedgeredT(int id_) : id(id_), moved(false) { stamp(); ledger().onCtor(this, id, 0); }
	LedgeredT(const LedgeredT & o) : id(o.id), moved(o.moved) {
		if(copyHook()) copyHook()();
		o.touch();
		faults().point(FaultKindCopy);
		stamp();
		ledger().onCtor(this, id, 1);
	}
	LedgeredT(LedgeredT && o) noexcept(! ThrowingMove) : id(o.id), moved(o.moved) {
		if(copyHook()) copyHook()();
		o.touch();
		if(ThrowingMove) faults().point(7);
		o.moved = true;
		stamp();
		ledger().onCtor(this, id, 2);
	}
	LedgeredT & operator = (const LedgeredT & o) {
		if(copyHook()) copyHook()();
		o.touch(); touch();
		faults().point(FaultKindCopy);
		rebind(o.id);
		moved = o.moved;
		return *this;
	}
	LedgeredT & operator = (LedgeredT && o) noexcept(! ThrowingMove) {
		if(copyHook()) copyHook()();
		o.touch(); touch();
		if(ThrowingMove) faults().point(7);
		if(this != &o) {
			rebind(o.id);
			moved = o.moved;
			o.moved = true;
		}
		return *this;
	}
	~LedgeredT() {
		if(! magicOk()) {
			ledger().flagExternal("destructor on bytes that are not a constructed object");
		}
		ledger().onDtor(this, id);
		if(dtorHook()) dtorHook()(id);
		magic = 0xdeaddeadu;
	}

	void touch() const {
		if(! magicOk()) {
			ledger().flagExternal("access to bytes that are not a constructed object (bad magic)");
			return;
		}
		ledger().onUse(this, id);
	}
	bool magicOk() const { return magic == expectedMagic(); }
	bool isMoved() const { return moved; }

	int id;

private:
	void rebind(int newId) {
		if(newId != id) {
			ledger().onDtor(this, id);
			id = newId;
			ledger().onCtor(this, id, 1);
		}
	}
	uint32_t expectedMagic() const { return 0x5a17c0deu ^ (uint32_t)(reinterpret_cast<uintptr_t>(this) >> 3); }
	void stamp() { magic = expectedMagic(); }

	bool moved;
	uint32_t magic;
};

// Event payload with a value (checksum is derived so corruption is visible)
// In the fault-injection builds its move constructor and move assignment are fault points too (a payload whose move can throw)
#ifdef VF_FAULTS
typedef LedgeredT<3, true> TrackedBase;
#else
typedef LedgeredT<3> TrackedBase;
#endif
class Tracked : public TrackedBase
{
public:
	explicit Tracked(int serial = 0, int value_ = 0) : TrackedBase(kPayloadBase + serial), value(value_), chk(value_ * 31 + 7) {}
	int serial() const { return id - kPayloadBase; }
	bool intact() const { return magicOk() && chk == value * 31 + 7 && ! isMoved(); }
	int value;
	int chk;
};

} // namespace vf

#endif
