// Per-case leak oracle: live heap bytes before / after a case as a cheap trigger, LeakSanitizer's
// recoverable check (expensive, ~0.1 s) as the confirmation. Without ASan both are no-ops.
#ifndef VERIF_LEAK_H
#define VERIF_LEAK_H

#include <cstddef>

#if defined(__has_feature)
#if __has_feature(address_sanitizer)
#define VF_ASAN 1
#endif
#endif
#if defined(__SANITIZE_ADDRESS__)
#define VF_ASAN 1
#endif

#ifdef VF_ASAN
// declared by hand: g++ does not ship <sanitizer/allocator_interface.h>
extern "C" size_t __sanitizer_get_current_allocated_bytes();
extern "C" int __lsan_do_recoverable_leak_check();
#endif

namespace vf {

inline size_t heapBytes()
{
#ifdef VF_ASAN
	return __sanitizer_get_current_allocated_bytes();
#else
	return 0;
#endif
}

// LeakSanitizer's recoverable check reports every leak that exists at the time of the call - also the ones it has reported
// before. Once a leak has been seen, later cases of the same process cannot be judged by it any more ("poisoned"):
// the failing case is kept as it is and minimised out of process by the driver (every replay is a fresh process).
inline bool & lsanPoisoned()
{
	static bool poisoned = false;
	return poisoned;
}

// true iff LeakSanitizer finds unreachable memory
inline bool confirmLeak()
{
#ifdef VF_ASAN
	if(lsanPoisoned()) return false;
	const bool leak = __lsan_do_recoverable_leak_check() != 0;
	if(leak) lsanPoisoned() = true;
	return leak;
#else
	return false;
#endif
}

struct LeakScope
{
	size_t before;
	LeakScope() : before(heapBytes()) {}
	// more heap in use than when the scope began: worth asking LeakSanitizer
	bool grew() const { return heapBytes() > before; }
};

} // namespace vf

#endif
