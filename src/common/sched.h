// Harness-owned cooperative scheduler (DESIGN 2.5). Real std::threads, exactly one holds the baton;
// every visible operation (mutex, atomic, condition variable, EVENTPP_VERIF_POINT hook) begins with a
// scheduling point at which the generated schedule decides who runs next.
#ifndef VERIF_SCHED_H
#define VERIF_SCHED_H

#include "program.h"
#include "harness.h"

#include <eventpp/eventpolicies.h>

#include <atomic>
#include <cstring>
#include <cstdio>
#include <cstdlib>
#include <chrono>
#include <condition_variable>
#include <functional>
#include <map>
#include <memory>
#include <mutex>
#include <string>
#include <thread>
#include <vector>

namespace vf {

enum ThreadState { TS_NEW, TS_RUNNABLE, TS_BLOCK_MUTEX, TS_BLOCK_CV, TS_BLOCK_JOIN, TS_DONE };

struct SchedMutex;
struct SchedCondVarBase;

class Sched
{
public:
	struct SchedMutexTag {};

	struct Th
	{
		int id = 0;
		ThreadState st = TS_NEW;
		const void * waitObj = nullptr;
		bool timed = false;        // parked in a timed wait
		bool timeoutFired = false; // the scheduler fired the timeout of the current timed wait
		long timeouts = 0;
		long spuriousWakes = 0;
		bool go = false;
		bool spinning = false;
		std::condition_variable cv;
		std::thread thread;
		std::function<void ()> body;
		int prio = 0;
		int csGroup = 0;           // parked at a hook inside a declared critical section of this group
		const char * csTag = nullptr;
	};

	explicit Sched(ChoiceSource & ch, int strategy_, bool allowSpurious_)
		: choice(ch), strategy(strategy_), allowSpurious(allowSpurious_)
	{
		// thread 0 is the caller (controller): it owns the baton to begin with
		std::unique_ptr<Th> t(new Th());
		t->id = 0;
		t->st = TS_RUNNABLE;
		t->prio = 1000;
		th.push_back(std::move(t));
		current = 0;
		tlId() = 0;
		instance() = this;
		if(strategy == 1) {
			int d = (int)choice.below(4);
			for(int i = 0; i < d; ++i) changePoints.push_back(1 + (long)choice.below(160));
		}
	}

	~Sched() {
		for(auto & t : th) if(t->thread.joinable()) t->thread.join();
		instance() = nullptr;
		tlId() = -1;
	}

	static Sched *& instance() { static Sched * s = nullptr; return s; }
	static int & tlId() { static thread_local int id = -1; return id; }
	static bool active() { return instance() != nullptr && tlId() >= 0; }

	int self() const { return tlId(); }
	long now() const { return step; }

	// ---- thread management (controller only)

	int spawn(std::function<void ()> body) {
		std::unique_ptr<Th> t(new Th());
		const int id = (int)th.size();
		t->id = id;
		t->st = TS_NEW;
		t->body = std::move(body);
		t->prio = 1 + (int)choice.below(100);
		Th * raw = t.get();
		th.push_back(std::move(t));
		raw->thread = std::thread([this, raw]() {
			tlId() = raw->id;
			{
				std::unique_lock<std::mutex> lk(m);
				raw->cv.wait(lk, [raw]() { return raw->go; });
				raw->go = false;
				raw->st = TS_RUNNABLE;
			}
			// scripted exploration must be able to start the threads in any order, also when a thread's first call has
			// no scheduling point of its own (only there: the random strategies pick the starting thread themselves,
			// and an extra point would shift the meaning of the schedule bytes of saved replays)
			if(strategy == 3) point("thread.start");
			raw->body();
			finish();
		});
		return id;
	}

	// Blocks the controller until every other thread is done (returns true) or no thread can run (returns false:
	// quiescent - the caller inspects states and may release waiters, then calls joinAll again).
	bool joinAll() {
		for(;;) {
			if(allOthersDone()) return true;
			Th & me = *th[0];
			me.st = TS_BLOCK_JOIN;
			int next = pickNext(-1);
			if(next < 0) {
				me.st = TS_RUNNABLE;
				return false;
			}
			joinWoken = false;
			pass(next, true);
			me.st = TS_RUNNABLE;
			if(allOthersDone()) return true;
			return false;
		}
	}

	bool allOthersDone() const {
		for(size_t i = 1; i < th.size(); ++i) if(th[i]->st != TS_DONE) return false;
		return true;
	}
	ThreadState stateOf(int id) const { return th[id]->st; }
	const void * waitObjOf(int id) const { return th[id]->waitObj; }
	size_t threadCount() const { return th.size(); }
	long timeoutsOf(int id) const { return th[id]->timeouts; }

	// ---- scheduling point

	// Hook tags with this prefix never preempt. Needed where the library synchronises with a real std::mutex that the
	// Threading policy cannot replace (the per-prototype lists inside HeterCallbackList always use the default policy):
	// preempting inside such a critical section would block the next thread in the kernel while it holds the baton.
	std::string noPreemptPrefix;

	// Strategy 3, scripted (bounded-exhaustive exploration): the running thread keeps the baton until it blocks or ends,
	// except at the listed steps, where the baton goes to the listed thread if that thread can run (otherwise the record
	// has no effect, which the enumerator uses to prune duplicates). Forced switches go to the lowest runnable thread id,
	// time-outs fire only when nothing else can run, there are no spurious wake-ups.
	std::vector<std::pair<long, int> > script;
	size_t scriptPos = 0;
	int scriptEffective = 0;
	bool scriptHighFirst = false; // forced switches go to the highest runnable thread id instead of the lowest

	// Mutual exclusion of the critical sections the hooks declare. The harness maps a hook tag to the group of
	// sections that touch the same unsynchronised container of the single object under test (0 = none). A thread that is
	// preempted at such a hook stays inside its section until it runs again, so a second thread that arrives at a hook
	// of the same group is inside a section over the same container at the same time: the lock that should serialise
	// them does not. Exact (no lockset approximation): both threads are really inside.
	int (*csGroupOf)(const char * tag) = nullptr;
	std::string csOverlap;
	long csArrivals = 0;

	void point(const char * tag) {
		if(! active()) return;
		if(! noPreemptPrefix.empty() && strncmp(tag, noPreemptPrefix.c_str(), noPreemptPrefix.size()) == 0) return;
		++step;
		++points;
		Th & me = *th[self()];
		static const bool traceOn = getenv("VERIF_SCHED_TRACE") != nullptr;
		if(traceOn) fprintf(stderr, "[sched] step %ld thread %d at %s\n", step, me.id, tag);
		const int group = (csGroupOf != nullptr && tag[0] == 'c' && tag[1] == 's' && tag[2] == '.') ? csGroupOf(tag) : 0;
		if(group != 0) {
			++csArrivals;
			for(auto & t : th) {
				if(t->id != me.id && t->csGroup == group && csOverlap.empty()) {
					csOverlap = std::string("thread ") + std::to_string(me.id) + " is at '" + tag + "' while thread " + std::to_string(t->id)
						+ " is still inside the critical section at '" + t->csTag + "' (same container, same object)";
				}
			}
		}
		struct Mark {
			Th & t;
			Mark(Th & t_, int g, const char * tg) : t(t_) { t.csGroup = g; t.csTag = tg; }
			~Mark() { t.csGroup = 0; t.csTag = nullptr; }
		} mark(me, group, tag);
		if(tag[0] == 's' && tag[1] == 'p' && tag[2] == 'i') { // "spin..."
			me.spinning = true;
			++spinRounds;
			if(spinRounds > 64 * (long)th.size()) {
				dieWithFailure("deadlock", "every runnable thread only spins on a lock that is never released (livelock)", EXIT_DEADLOCK);
			}
		}
		else {
			me.spinning = false;
			spinRounds = 0;
		}
		int next = pickNext(self());
		if(next != self() && next >= 0) {
			++switches;
			if(tag[0] == 'c' && tag[1] == 's' && tag[2] == '.') ++csPreemptions; // hook tags inside critical sections start with "cs."
			if(tag[0] == 'u' && tag[1] == 'n' && tag[2] == '.') ++unlockedPreemptions; // unlocked shared accesses: "un."
			lastPreemptTag = tag;
			pass(next, true);
		}
	}

	// ---- primitives used by SchedMutex / SchedCondVar

	void mutexLock(SchedMutexTag * mx, int & owner) {
		if(! active()) { owner = -2; return; }
		point("mutex.lock");
		while(owner != -1) {
			if(owner == self()) {
				dieWithFailure("deadlock", "a thread locked a mutex it already holds", EXIT_DEADLOCK);
			}
			Th & me = *th[self()];
			me.st = TS_BLOCK_MUTEX;
			me.waitObj = mx;
			blockAndYield();
		}
		owner = self();
	}
	bool mutexTryLock(SchedMutexTag *, int & owner) {
		if(! active()) { if(owner != -1) return false; owner = -2; return true; }
		point("mutex.trylock");
		if(owner != -1) return false;
		owner = self();
		return true;
	}
	void mutexUnlock(SchedMutexTag * mx, int & owner) {
		if(! active()) { owner = -1; return; }
		point("mutex.unlock");
		if(owner != self() && owner != -2) unlockByNonOwner = true;
		owner = -1;
		for(auto & t : th) {
			if(t->st == TS_BLOCK_MUTEX && t->waitObj == mx) { t->st = TS_RUNNABLE; t->waitObj = nullptr; }
		}
	}

	// returns true when woken by notify / spuriously, false when the timeout fired
	bool cvPark(const void * cvObj, bool timed) {
		Th & me = *th[self()];
		me.st = TS_BLOCK_CV;
		me.waitObj = cvObj;
		me.timed = timed;
		me.timeoutFired = false;
		blockAndYield();
		me.timed = false;
		return ! me.timeoutFired;
	}
	void cvNotify(const void * cvObj, bool all) {
		if(! active()) return;
		point(all ? "cv.notify_all" : "cv.notify_one");
		std::vector<int> waiters;
		for(auto & t : th) if(t->st == TS_BLOCK_CV && t->waitObj == cvObj) waiters.push_back(t->id);
		if(waiters.empty()) { ++lostNotifies; return; }
		if(all) {
			for(int w : waiters) wake(*th[w]);
		}
		else {
			wake(*th[waiters[choice.below((uint32_t)waiters.size())]]);
		}
	}

	// statistics for the evidence
	long step = 0, points = 0, switches = 0, csPreemptions = 0, unlockedPreemptions = 0, lostNotifies = 0, spuriousInjected = 0, timeoutsFired = 0;
	bool unlockByNonOwner = false;
	std::string lastPreemptTag;

private:
	void wake(Th & t) { t.st = TS_RUNNABLE; t.waitObj = nullptr; }

	void finish() {
		std::unique_lock<std::mutex> lk(m);
		Th & me = *th[self()];
		me.st = TS_DONE;
		++step;
		int next = pickNextLocked(-1);
		if(next < 0) {
			// nobody else can run: hand the baton back to the controller (it is in joinAll, or will detect deadlock)
			next = 0;
			if(th[0]->st != TS_BLOCK_JOIN) {
				lk.unlock();
				dieWithFailure("deadlock", "no thread can run and the controller is not waiting", EXIT_DEADLOCK);
			}
		}
		current = next;
		th[next]->go = true;
		th[next]->cv.notify_one();
	}

	// the calling thread cannot continue: give the baton to somebody else and wait to be resumed
	void blockAndYield() {
		for(;;) {
			int next = pickNext(-1);
			if(next < 0) {
				// nothing can run. If the controller waits in joinAll it gets the baton (quiescent state).
				if(th[0]->st == TS_BLOCK_JOIN && self() != 0) next = 0;
				else dieWithFailure("deadlock", describeStates(), EXIT_DEADLOCK);
			}
			pass(next, true);
			Th & me = *th[self()];
			if(me.st == TS_RUNNABLE) return;
			// resumed although still blocked: only the controller hands the baton around like this; keep waiting
		}
	}

	std::string describeStates() const {
		std::string s = "no thread can run:";
		for(auto & t : th) {
			static const char * names[] = { "new", "runnable", "blocked-on-mutex", "parked-on-condition-variable", "joining", "done" };
			s += " t" + std::to_string(t->id) + "=" + names[t->st];
		}
		return s;
	}

	void pass(int next, bool waitForTurn) {
		std::unique_lock<std::mutex> lk(m);
		Th & me = *th[self()];
		if(next != self()) {
			current = next;
			th[next]->go = true;
			th[next]->cv.notify_one();
			if(waitForTurn) {
				me.cv.wait(lk, [&me]() { return me.go; });
				me.go = false;
			}
		}
	}

	int pickNext(int selfId) {
		return pickNextLocked(selfId);
	}

	// Chooses the thread to run next. selfId >= 0: the caller is runnable and may continue.
	// The controller (thread 0) is runnable only while it executes harness code, never while joining.
	int pickNextLocked(int selfId) {
		std::vector<int> enabled;
		std::vector<int> timedWaiters;
		std::vector<int> cvWaiters;
		for(auto & t : th) {
			if(t->st == TS_RUNNABLE || t->st == TS_NEW) enabled.push_back(t->id);
			else if(t->st == TS_BLOCK_CV) {
				cvWaiters.push_back(t->id);
				if(t->timed) timedWaiters.push_back(t->id);
			}
		}
		if(strategy == 3) return pickScripted(selfId, enabled, timedWaiters);
		// timeouts: fired when nothing else can run, or rarely while others run
		if(! timedWaiters.empty() && (enabled.empty() || choice.below(24) == 0)) {
			int w = timedWaiters[choice.below((uint32_t)timedWaiters.size())];
			th[w]->timeoutFired = true;
			++th[w]->timeouts;
			++timeoutsFired;
			wake(*th[w]);
			enabled.push_back(w);
		}
		else if(allowSpurious && ! cvWaiters.empty() && ! enabled.empty() && choice.below(40) == 0) {
			int w = cvWaiters[choice.below((uint32_t)cvWaiters.size())];
			++th[w]->spuriousWakes;
			++spuriousInjected;
			wake(*th[w]);
			enabled.push_back(w);
		}
		if(enabled.empty()) return -1;
		// spinning threads yield to anyone who is not spinning
		std::vector<int> nonSpin;
		for(int e : enabled) if(! th[e]->spinning) nonSpin.push_back(e);
		const bool selfSpinning = selfId >= 0 && th[selfId]->spinning;
		if(selfSpinning && ! nonSpin.empty()) return nonSpin[choice.below((uint32_t)nonSpin.size())];
		switch(strategy) {
		case 1: { // PCT: highest priority runs; at change points the running thread drops below everybody
			if(selfId >= 0) {
				for(long cp : changePoints) if(cp == step) th[selfId]->prio = -(int)step;
			}
			int best = enabled[0];
			for(int e : enabled) if(th[e]->prio > th[best]->prio) best = e;
			return best;
		}
		case 2: // sticky: keep running with probability 3/4
			if(selfId >= 0 && th[selfId]->st == TS_RUNNABLE && choice.below(4) != 0) return selfId;
			return enabled[choice.below((uint32_t)enabled.size())];
		default:
			return enabled[choice.below((uint32_t)enabled.size())];
		}
	}

	int pickScripted(int selfId, std::vector<int> & enabled, const std::vector<int> & timedWaiters) {
		if(enabled.empty() && ! timedWaiters.empty()) {
			int w = timedWaiters[0];
			th[w]->timeoutFired = true;
			++th[w]->timeouts;
			++timeoutsFired;
			wake(*th[w]);
			enabled.push_back(w);
		}
		if(enabled.empty()) return -1;
		std::vector<int> nonSpin;
		for(int e : enabled) if(! th[e]->spinning) nonSpin.push_back(e);
		const bool selfSpinning = selfId >= 0 && th[selfId]->spinning;
		if(selfSpinning && ! nonSpin.empty()) return nonSpin[0];
		while(scriptPos < script.size() && script[scriptPos].first < step) ++scriptPos;
		if(selfId >= 0 && th[selfId]->st == TS_RUNNABLE) {
			if(scriptPos < script.size() && script[scriptPos].first == step) {
				const int target = script[scriptPos].second;
				++scriptPos;
				if(target != selfId) for(int e : enabled) if(e == target) { ++scriptEffective; return target; }
			}
			return selfId;
		}
		if(scriptHighFirst) { for(size_t i = enabled.size(); i > 0; --i) if(enabled[i - 1] > 0) return enabled[i - 1]; }
		else { for(int e : enabled) if(e > 0) return e; }
		return enabled[0];
	}

	ChoiceSource & choice;
	int strategy;
	bool allowSpurious;
	std::mutex m;
	int current = 0;
	bool joinWoken = false;
	long spinRounds = 0;
	std::vector<long> changePoints;
	std::vector<std::unique_ptr<Th> > th;
};

// ---------------------------------------------------------------- Threading policy types

struct SchedMutex : Sched::SchedMutexTag
{
	int owner = -1;
	void lock() { if(Sched::instance()) Sched::instance()->mutexLock(this, owner); else owner = -2; }
	bool try_lock() { if(Sched::instance()) return Sched::instance()->mutexTryLock(this, owner); if(owner != -1) return false; owner = -2; return true; }
	void unlock() { if(Sched::instance()) Sched::instance()->mutexUnlock(this, owner); else owner = -1; }
	bool heldByCaller() const { return owner != -1 && (owner == -2 || (Sched::instance() && owner == Sched::instance()->self())); }
};

inline void schedPoint(const char * tag)
{
	if(Sched::instance()) Sched::instance()->point(tag);
}

template <typename T>
struct SchedAtomic
{
	SchedAtomic() noexcept : value() {}
	constexpr SchedAtomic(T v) noexcept : value(v) {}
	SchedAtomic(const SchedAtomic &) = delete;
	SchedAtomic & operator = (const SchedAtomic &) = delete;

	// a scheduling point before and after every operation: a plain access that follows (or precedes) an atomic
	// one in the same expression must be separable from it by a preemption
	T load(std::memory_order = std::memory_order_seq_cst) const noexcept { schedPoint("atomic.load"); T v = value; schedPoint("atomic.after"); return v; }
	void store(T v, std::memory_order = std::memory_order_seq_cst) noexcept { schedPoint("atomic.store"); value = v; schedPoint("atomic.after"); }
	T exchange(T v, std::memory_order = std::memory_order_seq_cst) noexcept { schedPoint("atomic.exchange"); T o = value; value = v; schedPoint("atomic.after"); return o; }
	bool compare_exchange_strong(T & expected, T desired, std::memory_order = std::memory_order_seq_cst, std::memory_order = std::memory_order_seq_cst) noexcept {
		schedPoint("atomic.cas");
		bool r = value == expected;
		if(r) value = desired; else expected = value;
		schedPoint("atomic.after");
		return r;
	}
	bool compare_exchange_weak(T & expected, T desired, std::memory_order a = std::memory_order_seq_cst, std::memory_order b = std::memory_order_seq_cst) noexcept {
		return compare_exchange_strong(expected, desired, a, b);
	}
	T fetch_add(T d, std::memory_order = std::memory_order_seq_cst) noexcept { schedPoint("atomic.fetch_add"); T o = value; value = (T)(value + d); schedPoint("atomic.after"); return o; }
	T fetch_sub(T d, std::memory_order = std::memory_order_seq_cst) noexcept { schedPoint("atomic.fetch_sub"); T o = value; value = (T)(value - d); schedPoint("atomic.after"); return o; }
	T operator ++ () noexcept { schedPoint("atomic.inc"); T r = ++value; schedPoint("atomic.after"); return r; }
	T operator -- () noexcept { schedPoint("atomic.dec"); T r = --value; schedPoint("atomic.after"); return r; }
	T operator ++ (int) noexcept { schedPoint("atomic.inc"); T r = value++; schedPoint("atomic.after"); return r; }
	T operator -- (int) noexcept { schedPoint("atomic.dec"); T r = value--; schedPoint("atomic.after"); return r; }
	T operator += (T d) noexcept { schedPoint("atomic.add"); T r = value = (T)(value + d); schedPoint("atomic.after"); return r; }
	T operator -= (T d) noexcept { schedPoint("atomic.sub"); T r = value = (T)(value - d); schedPoint("atomic.after"); return r; }
	operator T () const noexcept { return load(); }
	T operator = (T v) noexcept { store(v); return v; }

	T value;
};

struct SchedCondVar
{
	// Releasing the lock and parking must be atomic: lk.unlock() has its scheduling point before the release
	// (while the lock is still held), and no scheduling point lies between the release and the parking.
	template <typename Lock>
	void wait(Lock & lk) {
		Sched * s = Sched::instance();
		if(! s || ! Sched::active()) return; // outside a controlled run a wait cannot block
		s->point("cv.wait");
		lk.unlock();
		s->cvPark(this, false);
		lk.lock();
	}
	template <typename Lock, typename Pred>
	void wait(Lock & lk, Pred pred) {
		while(! pred()) wait(lk);
	}
	// returns false on timeout
	template <typename Lock>
	bool waitTimed(Lock & lk, bool zero) {
		Sched * s = Sched::instance();
		if(! s || ! Sched::active()) return false;
		s->point("cv.wait_for");
		lk.unlock();
		bool notified = true;
		if(zero) notified = false;
		else notified = s->cvPark(this, true);
		lk.lock();
		return notified;
	}
	template <typename Lock, typename Rep, typename Period, typename Pred>
	bool wait_for(Lock & lk, const std::chrono::duration<Rep, Period> & d, Pred pred) {
		const bool zero = d <= std::chrono::duration<Rep, Period>::zero();
		while(! pred()) {
			if(! waitTimed(lk, zero)) return pred();
		}
		return true;
	}
	template <typename Lock, typename Rep, typename Period>
	std::cv_status wait_for(Lock & lk, const std::chrono::duration<Rep, Period> & d) {
		return waitTimed(lk, d <= std::chrono::duration<Rep, Period>::zero()) ? std::cv_status::no_timeout : std::cv_status::timeout;
	}
	void notify_one() noexcept { if(Sched::instance()) Sched::instance()->cvNotify(this, false); }
	void notify_all() noexcept { if(Sched::instance()) Sched::instance()->cvNotify(this, true); }
};

using SchedThreading = eventpp::GeneralThreading<SchedMutex, SchedAtomic, SchedCondVar>;
// the library's own SpinLock under the controlled scheduler (its spin loop yields through the EVENTPP_VERIF_POINT hook)
using SchedSpinThreading = eventpp::GeneralThreading<eventpp::SpinLock, SchedAtomic, SchedCondVar>;

inline void schedHookPoint(const char * tag) { schedPoint(tag); }

inline void installSchedHook()
{
#ifdef EVENTPP_VERIF
	eventpp::verif::pointFunction() = &schedHookPoint;
#endif
}

} // namespace vf

#endif
