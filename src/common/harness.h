// Interface between a harness TU (compiled against /repo) and the engines / runtime
// (compiled once by setup, independent of /repo).
#ifndef VERIF_HARNESS_H
#define VERIF_HARNESS_H

#include "program.h"

#include <map>
#include <string>
#include <vector>
#include <functional>

namespace vf {

struct Verdict
{
	bool ok = true;
	std::string rule;   // id of the oracle rule that fired, e.g. "C02.trace"
	std::string prop;   // property the rule belongs to; "*" = crash class (belongs to whatever check runs)
	std::string msg;
	std::string sig;    // failure signature for the known-findings protocol
	bool nontrivial = false;
	std::vector<const char *> classes; // classes this case falls in (static strings; histogram in the evidence)
	std::string trace;  // compact observed trace (for samples)
	long subEvaluations = 0; // executions performed inside this case (schedules, fault positions); 0 = 1

	void fail(const std::string & r, const std::string & p, const std::string & m, const std::string & s = std::string()) {
		if(! ok) return; // first failure wins
		ok = false; rule = r; prop = p; msg = m; sig = s.empty() ? r : s;
	}
};

struct Harness
{
	const char * name;
	// grammar for the property being checked (the same harness serves several properties)
	const Grammar & (*grammar)(const std::string & prop);
	Verdict (*run)(const Program & p, const std::string & prop);
	const char * (*kindName)(int kind);
	// optional bounded-exhaustive enumerator: calls sink for every program of the enumerated sub-space,
	// returns a description of the space; null if the harness has none for this property
	std::string (*enumerate)(const std::string & prop, const std::function<bool (const Program &)> & sink);
};

// defined by the harness TU
extern const Harness g_harness;

// ---- runtime services (runtime.cpp)

struct RunConfig
{
	std::string prop;
	std::string outDir = ".";
	std::string tag = "0";
	bool quiet = false;
};
RunConfig & config();

// Run one case through the harness: crash bookkeeping, statistics, failure file. Returns verdict.ok
// for rules that belong to the property under check (foreign rules are counted, not reported).
bool runCase(const Program & p, bool shrinking = false);
void writeStats();
const Verdict & lastVerdict();
std::string caseText(const Program & p);

// exit code used when the controlled scheduler finds a deadlock / the checked mutex finds a re-lock that
// cannot be unwound: the replay has been written to <outDir>/crash.<tag>.replay
enum { EXIT_FAIL = 1, EXIT_DEADLOCK = 41, EXIT_HANG = 42 };
[[noreturn]] void dieWithFailure(const std::string & rule, const std::string & msg, int exitCode);

} // namespace vf

#endif
