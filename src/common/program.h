// Program: the uniform generated case used by every harness (DESIGN 2.1).
// Plain C++11, no dependency on rapidcheck / libFuzzer / eventpp.
#ifndef VERIF_PROGRAM_H
#define VERIF_PROGRAM_H

#include <cstdint>
#include <cstdio>
#include <cstdlib>
#include <cstring>
#include <string>
#include <vector>
#include <sstream>
#include <fstream>

namespace vf {

struct Op
{
	int kind = 0;
	int a = 0, b = 0, c = 0;
	std::vector<Op> body;
};

struct Program
{
	std::vector<int> params;
	std::vector<Op> ops;
	std::vector<uint8_t> sched;
};

// ---------------------------------------------------------------- grammar

struct ArgSpec
{
	int lo = 0, hi = 0;
	// with probability biasPct/100 draw from [blo, bhi] instead
	int blo = 0, bhi = 0, biasPct = 0;
	ArgSpec() {}
	ArgSpec(int lo_, int hi_) : lo(lo_), hi(hi_) {}
	ArgSpec(int lo_, int hi_, int blo_, int bhi_, int pct) : lo(lo_), hi(hi_), blo(blo_), bhi(bhi_), biasPct(pct) {}
};

struct KindSpec
{
	int kind;
	const char * name;
	int weight;
	ArgSpec a, b, c;
	int bodyLevel; // -1: no body
	int bodyMax;
};

struct Level
{
	std::vector<KindSpec> kinds;
	int minOps = 0;
	int maxOps = 0;
};

struct Grammar
{
	std::vector<ArgSpec> params;
	std::vector<Level> levels; // level 0 is the top level
	int maxDepth = 3;          // bodies nested deeper than this are generated empty
	int maxSched = 0;          // number of scheduling / fault bytes
	int maxTotalOps = 400;     // hard cap on the number of ops in one program
};

// ---------------------------------------------------------------- text form

inline void printOps(std::ostream & os, const std::vector<Op> & ops, int indent,
	const char * (*kindName)(int))
{
	for(const Op & op : ops) {
		for(int i = 0; i < indent; ++i) os << ' ';
		os << "op " << op.kind << ' ' << op.a << ' ' << op.b << ' ' << op.c;
		if(kindName) {
			const char * n = kindName(op.kind);
			if(n) os << " #" << n;
		}
		if(! op.body.empty()) {
			os << " {\n";
			printOps(os, op.body, indent + 1, kindName);
			for(int i = 0; i < indent; ++i) os << ' ';
			os << "}\n";
		}
		else {
			os << "\n";
		}
	}
}

inline std::string toText(const Program & p, const char * (*kindName)(int) = nullptr)
{
	std::ostringstream os;
	os << "params";
	for(int v : p.params) os << ' ' << v;
	os << "\nsched";
	static const char * hex = "0123456789abcdef";
	if(! p.sched.empty()) os << ' ';
	for(uint8_t b : p.sched) os << hex[b >> 4] << hex[b & 15];
	os << "\n";
	printOps(os, p.ops, 0, kindName);
	return os.str();
}

inline bool parseOps(std::istream & is, std::vector<Op> & out, bool nested)
{
	std::string line;
	while(std::getline(is, line)) {
		size_t i = 0;
		while(i < line.size() && (line[i] == ' ' || line[i] == '\t')) ++i;
		if(i >= line.size() || line[i] == '#') continue;
		if(line[i] == '}') return nested;
		if(line.compare(i, 3, "op ") != 0) return false;
		Op op;
		const char * s = line.c_str() + i + 3;
		char * e = nullptr;
		op.kind = (int)strtol(s, &e, 10); if(e == s) return false; s = e;
		op.a = (int)strtol(s, &e, 10); if(e == s) return false; s = e;
		op.b = (int)strtol(s, &e, 10); if(e == s) return false; s = e;
		op.c = (int)strtol(s, &e, 10); if(e == s) return false; s = e;
		bool open = false;
		// skip "#name"
		const char * br = strrchr(s, '{');
		if(br) {
			const char * t = br + 1;
			while(*t == ' ' || *t == '\r') ++t;
			if(*t == 0) open = true;
		}
		if(open) {
			if(! parseOps(is, op.body, true)) return false;
		}
		out.push_back(std::move(op));
	}
	return ! nested;
}

inline bool fromText(const std::string & text, Program & p)
{
	std::istringstream is(text);
	std::string line;
	p = Program();
	do {
		if(! std::getline(is, line)) return false;
	} while(line.empty() || line[0] == '#');
	if(line.compare(0, 6, "params") != 0) return false;
	{
		std::istringstream ls(line.substr(6));
		int v;
		while(ls >> v) p.params.push_back(v);
	}
	if(! std::getline(is, line) || line.compare(0, 5, "sched") != 0) return false;
	{
		std::string h;
		for(size_t i = 5; i < line.size(); ++i) {
			char c = line[i];
			if((c >= '0' && c <= '9') || (c >= 'a' && c <= 'f')) h += c;
		}
		for(size_t i = 0; i + 1 < h.size(); i += 2) {
			auto hv = [](char c) { return c <= '9' ? c - '0' : c - 'a' + 10; };
			p.sched.push_back((uint8_t)(hv(h[i]) * 16 + hv(h[i + 1])));
		}
	}
	return parseOps(is, p.ops, false);
}

inline bool loadProgram(const std::string & path, Program & p)
{
	std::ifstream f(path.c_str());
	if(! f) return false;
	std::stringstream ss;
	ss << f.rdbuf();
	return fromText(ss.str(), p);
}

inline uint64_t fnv1a(const std::string & s, uint64_t h = 1469598103934665603ull)
{
	for(unsigned char c : s) {
		h ^= c;
		h *= 1099511628211ull;
	}
	return h;
}

inline size_t countOps(const std::vector<Op> & ops)
{
	size_t n = ops.size();
	for(const Op & o : ops) n += countOps(o.body);
	return n;
}

// Small deterministic PRNG (splitmix64) - only ever seeded from program content.
struct Rng
{
	uint64_t s;
	explicit Rng(uint64_t seed) : s(seed) {}
	uint64_t next() {
		uint64_t z = (s += 0x9e3779b97f4a7c15ull);
		z = (z ^ (z >> 30)) * 0xbf58476d1ce4e5b9ull;
		z = (z ^ (z >> 27)) * 0x94d049bb133111ebull;
		return z ^ (z >> 31);
	}
	uint32_t below(uint32_t n) { return n ? (uint32_t)(next() % n) : 0; }
};

// Consumes Program.sched bytes in order, then falls back to a PRNG seeded from the program text.
struct ChoiceSource
{
	const std::vector<uint8_t> * bytes;
	size_t pos;
	Rng rng;
	ChoiceSource(const Program & p, uint64_t seed) : bytes(&p.sched), pos(0), rng(seed) {}
	uint32_t below(uint32_t n) {
		if(n <= 1) return 0;
		if(pos < bytes->size()) {
			return (uint32_t)((*bytes)[pos++]) % n;
		}
		return rng.below(n);
	}
	uint32_t byte() { return below(256); }
};

} // namespace vf

#endif
