// Harness `filter` (C12): MixinFilter / MixinHeterFilter on direct and queued dispatch, several mixins,
// canContinueInvoking, conditionalFunctor and argumentAdapter wrappers. Lock-step with a filter-chain model.
#include <eventpp/eventqueue.h>
#include <eventpp/hetereventqueue.h>
#include <eventpp/mixins/mixinfilter.h>
#include <eventpp/mixins/mixinheterfilter.h>
#include <eventpp/utilities/conditionalfunctor.h>
#include <eventpp/utilities/argumentadapter.h>

#include "common/harness.h"
#include "common/ledger.h"
#include "common/models.h"
#include "common/leak.h"

#include <memory>
#include <sstream>

namespace {
using namespace vf;

enum Kind { F_APPENDFILTER = 1, F_REMOVEFILTER, F_ADDLISTENER, F_REMOVELISTENER, F_DISPATCH, F_MAX };
const char * kindName(int k)
{
	static const char * n[] = { "?", "appendFilter", "removeFilter", "addListener", "removeListener", "dispatch" };
	return (k > 0 && k < F_MAX) ? n[k] : "?";
}
const int kKeys = 4, kMaxDepth = 3, kFuel = 150; // keys 2,3: the shared_ptr dispatcher of the adapter subject

struct Args { int a; std::string s; bool operator == (const Args & o) const { return a == o.a && s == o.s; } };

struct Interp;
Interp * g_f = nullptr;
bool onFilter(int id, int & a, std::string & s, bool canWriteA);
void onListener(int id, int a, const std::string & s, int viaAdapter);
bool onCondition(int id, int a, const std::string & s);

struct Ev { int v; std::string tag; mutable bool stop; };
struct Base { int a; virtual ~Base() {} };
struct Derived : Base { std::string s; };

struct Flt : LedgeredT<5>
{
	explicit Flt(int id_) : LedgeredT<5>(kAuxBase + id_) {}
	bool operator() (int & a, std::string & s) const { touch(); return onFilter(id - kAuxBase, a, s, true); }
	bool operator() (const int & a, std::string & s) const { touch(); int copy = a; return onFilter(id - kAuxBase, copy, s, false); }
	bool operator() (Ev & e) const { touch(); return onFilter(id - kAuxBase, e.v, e.tag, true); }
};
struct Lst : LedgeredT<2>
{
	explicit Lst(int id_) : LedgeredT<2>(kCbBase + id_) {}
	void operator() (int a, const std::string & s) const { touch(); onListener(id - kCbBase, a, s, 0); }
	void operator() (Ev & e) const;
};
struct Cnd
{
	int id;
	bool operator() (int a, const std::string & s) const { return onCondition(id, a, s); }
};
// listeners with other parameter types, reached through argumentAdapter
struct LstAdaptNum { int id; void operator() (long a, const std::string & s) const { onListener(id, (int)a, s, 1); } };
struct LstAdaptChar { int id; void operator() (signed char a, std::string s) const { onListener(id, (int)a, s, 2); } };
struct LstDerived { int id; void operator() (const Derived & d) const { onListener(id, d.a, d.s, 3); } };
struct LstSharedDerived { int id; void operator() (std::shared_ptr<Derived> d) const { onListener(id, d ? d->a : -1, d ? d->s : std::string("<null>"), 4); } };
struct LstBase { int id; void operator() (const Base & b) const { const Derived * d = dynamic_cast<const Derived *>(&b); onListener(id, b.a, d ? d->s : std::string(), 0); } };
struct LstSharedBase { int id; void operator() (std::shared_ptr<Base> b) const { Derived * d = dynamic_cast<Derived *>(b.get()); onListener(id, b->a, d ? d->s : std::string(), 0); } };

template <typename B>
class MixinCount : public B
{
public:
	template <typename ...A> bool mixinBeforeDispatch(A && ...) const { ++count; return true; }
	mutable long count = 0;
};

// a user mixin whose hook is an ordinary member function taking the arguments as non-const lvalue references (the form
// the documentation shows), on a by-value prototype: it must be called like the variadic template form above
template <typename B>
class MixinGate : public B
{
public:
	bool mixinBeforeDispatch(int & a, std::string & s) const { (void)a; (void)s; ++count; return true; }
	mutable long count = 0;
};

// the caller's own event object of the direct dispatch in progress (null otherwise)
int * g_liveKey = nullptr;
struct LiveKey { int * old; explicit LiveKey(int * k) : old(g_liveKey) { g_liveKey = k; } ~LiveKey() { g_liveKey = old; } };

struct IF
{
	virtual ~IF() {}
	virtual bool hasFilters() const = 0;
	virtual bool canWriteA() const = 0;
	virtual int listenerKinds() const = 0;  // 0 plain, 1 conditionalFunctor, 2.. adapters
	virtual int countMixin() const = 0;      // 0 none, 1 count after filter, 2 count before filter
	virtual bool canContinue() const { return false; }
	virtual bool twoDispatchers() const { return false; } // adapter subject: reference and shared_ptr dispatchers
	virtual bool continueByValue() const { return false; } // canContinueInvoking taking by-value arguments: stops iff a < 0
	virtual void appendFilter(int id) = 0;
	virtual bool removeFilter(int h) = 0;
	virtual void addListener(int key, int id, int kind, int how) = 0;
	virtual bool removeListener(int key, int h) = 0;
	virtual void dispatch(int key, const Args & a, bool queued, Args & callerAfter) = 0;
	virtual long count() = 0;
};

struct PFilter { using Mixins = eventpp::MixinList<eventpp::MixinFilter>; using ArgumentPassingMode = eventpp::ArgumentPassingExcludeEvent; };
struct PFilterCount { using Mixins = eventpp::MixinList<eventpp::MixinFilter, MixinCount>; using ArgumentPassingMode = eventpp::ArgumentPassingExcludeEvent; };
struct PCountFilter { using Mixins = eventpp::MixinList<MixinCount, eventpp::MixinFilter>; using ArgumentPassingMode = eventpp::ArgumentPassingExcludeEvent; };
struct PFilterGate { using Mixins = eventpp::MixinList<eventpp::MixinFilter, MixinGate>; using ArgumentPassingMode = eventpp::ArgumentPassingExcludeEvent; };
struct PGateFilter { using Mixins = eventpp::MixinList<MixinGate, eventpp::MixinFilter>; using ArgumentPassingMode = eventpp::ArgumentPassingExcludeEvent; };
// a mixin without an interceptor of its own (doc/mixins.md: the interceptor is optional). In FRONT of MixinFilter it inherits
// MixinFilter's mixinBeforeDispatch, which the library then calls once per level: known finding E15 (configurations 12 and 13,
// which the generators never choose; the committed replay selects them)
template <typename Base> class MixinPlain : public Base { public: int plainExtra() const { return 7; } };
struct PPlainFilter { using Mixins = eventpp::MixinList<MixinPlain, eventpp::MixinFilter>; using ArgumentPassingMode = eventpp::ArgumentPassingExcludeEvent; };
struct PFilterPlain { using Mixins = eventpp::MixinList<eventpp::MixinFilter, MixinPlain>; using ArgumentPassingMode = eventpp::ArgumentPassingExcludeEvent; };
struct PHeterFilter { using Mixins = eventpp::MixinList<eventpp::MixinHeterFilter>; };
struct PContinue
{
	static bool canContinueInvoking(const Ev & e) { return ! e.stop; }
	static int getEvent(const Ev & e) { return e.v & 1; }
	using Mixins = eventpp::MixinList<eventpp::MixinFilter>;
};

template <typename T> long countOf(T &, long) { return 0; }
template <typename T> auto countOf(T & t, int) -> decltype(t.count) { return t.count; }

// homogeneous subjects: void(int, std::string) by value, or void(const int &, std::string &)
template <typename D, bool WriteA, int CountKind, bool IsQueue>
struct Homo : IF
{
	D d;
	std::vector<typename D::FilterHandle> fh;
	std::vector<typename D::Handle> lh;
	bool hasFilters() const override { return true; }
	bool canWriteA() const override { return WriteA; }
	int listenerKinds() const override { return 4; }
	int countMixin() const override { return CountKind; }
	void appendFilter(int id) override { fh.push_back(d.appendFilter(Flt(id))); }
	bool removeFilter(int h) override { return d.removeFilter(fh[(size_t)h]); }
	void addListener(int key, int id, int kind, int how) override {
		typename D::Callback cb;
		switch(kind) {
		case 1: cb = eventpp::conditionalFunctor(Lst(id), Cnd { id }); break;
		case 2: cb = eventpp::argumentAdapter<void (long, const std::string &)>(LstAdaptNum { id }); break;
		case 3: cb = eventpp::argumentAdapter<void (signed char, std::string)>(LstAdaptChar { id }); break;
		default: cb = Lst(id); break;
		}
		lh.push_back(how & 1 ? d.prependListener(key, cb) : d.appendListener(key, cb));
	}
	bool removeListener(int key, int h) override { return d.removeListener(key, lh[(size_t)h]); }
	// direct dispatch hands the library an lvalue of exactly the Event type; while it runs, filters with an odd id overwrite that
	// very object (g_liveKey): the event to dispatch was determined by the call's arguments, so this must not re-route anything
	void doDispatch(int key, Args & c, std::true_type, bool queued) {
		if(queued) { d.enqueue(key, c.a, c.s); d.process(); }
		else { LiveKey lk(&key); d.dispatch(key, c.a, c.s); }
	}
	void doDispatch(int key, Args & c, std::false_type, bool) { LiveKey lk(&key); d.dispatch(key, c.a, c.s); }
	void dispatch(int key, const Args & a, bool queued, Args & callerAfter) override {
		callerAfter = a;
		doDispatch(key, callerAfter, std::integral_constant<bool, IsQueue>(), queued);
	}
	long count() override { return countOf(d, 0); }
};

// heterogeneous dispatcher / queue with MixinHeterFilter: prototypes <void(int, std::string), void(int)>
template <typename D, bool IsQueue>
struct Heter : IF
{
	D d;
	std::vector<typename D::FilterHandle> fh;
	std::vector<typename D::Handle> lh;
	bool hasFilters() const override { return true; }
	bool canWriteA() const override { return true; }
	int listenerKinds() const override { return 1; }
	int countMixin() const override { return 0; }
	void appendFilter(int id) override { fh.push_back(d.appendFilter(Flt(id))); }
	bool removeFilter(int h) override { return d.removeFilter(fh[(size_t)h]); }
	void addListener(int key, int id, int, int how) override { lh.push_back(how & 1 ? d.prependListener(key, Lst(id)) : d.appendListener(key, Lst(id))); }
	bool removeListener(int key, int h) override { return d.removeListener(key, lh[(size_t)h]); }
	void go(int key, Args & c, std::true_type, bool queued) { if(queued) { d.enqueue(key, c.a, c.s); d.process(); } else d.dispatch(key, c.a, c.s); }
	void go(int key, Args & c, std::false_type, bool) { d.dispatch(key, c.a, c.s); }
	void dispatch(int key, const Args & a, bool queued, Args & callerAfter) override { callerAfter = a; go(key, callerAfter, std::integral_constant<bool, IsQueue>(), queued); }
	long count() override { return 0; }
};

// canContinueInvoking: void(Ev &), listeners may set e.stop
struct Cont : IF
{
	eventpp::EventDispatcher<int, void (Ev &), PContinue> d;
	std::vector<decltype(d)::FilterHandle> fh;
	std::vector<decltype(d)::Handle> lh;
	bool hasFilters() const override { return true; }
	bool canWriteA() const override { return true; }
	int listenerKinds() const override { return 1; }
	int countMixin() const override { return 0; }
	bool canContinue() const override { return true; }
	void appendFilter(int id) override { fh.push_back(d.appendFilter(Flt(id))); }
	bool removeFilter(int h) override { return d.removeFilter(fh[(size_t)h]); }
	void addListener(int key, int id, int, int how) override { lh.push_back(how & 1 ? d.prependListener(key, Lst(id)) : d.appendListener(key, Lst(id))); }
	bool removeListener(int key, int h) override { return d.removeListener(key, lh[(size_t)h]); }
	void dispatch(int key, const Args & a, bool, Args & callerAfter) override {
		Ev e { (a.a & ~1) | key, a.s, false };
		d.dispatch(e);
		callerAfter.a = e.v; callerAfter.s = e.tag;
	}
	long count() override { return 0; }
};

// canContinueInvoking with a by-value, movable argument and a policy that takes its arguments by value:
// every listener must still receive the dispatched values, and the policy decides on those same values
struct PContinueVal
{
	static bool canContinueInvoking(std::string s, int a) { return a >= 0 || s.size() > 1000; }
	using Mixins = eventpp::MixinList<eventpp::MixinFilter>;
	using ArgumentPassingMode = eventpp::ArgumentPassingExcludeEvent;
};
struct LstVal : LedgeredT<2>
{
	explicit LstVal(int id_) : LedgeredT<2>(kCbBase + id_) {}
	void operator() (std::string s, int a) const { touch(); onListener(id - kCbBase, a, s, 0); }
};
struct FltVal : LedgeredT<5>
{
	explicit FltVal(int id_) : LedgeredT<5>(kAuxBase + id_) {}
	bool operator() (std::string & s, int & a) const { touch(); return onFilter(id - kAuxBase, a, s, true); }
};
// condition taking its arguments by value: conditionalFunctor must evaluate it on the dispatched values and still hand
// those values to the wrapped listener
struct CndVal
{
	int id;
	bool operator() (std::string s, int a) const { return onCondition(id, a, s); }
};
template <bool IsQueue>
struct ContVal : IF
{
	typedef typename std::conditional<IsQueue, eventpp::EventQueue<int, void (std::string, int), PContinueVal>, eventpp::EventDispatcher<int, void (std::string, int), PContinueVal> >::type D;
	D d;
	std::vector<typename D::FilterHandle> fh;
	std::vector<typename D::Handle> lh;
	bool hasFilters() const override { return true; }
	bool canWriteA() const override { return true; }
	int listenerKinds() const override { return 2; }
	int countMixin() const override { return 0; }
	bool continueByValue() const override { return true; }
	void appendFilter(int id) override { fh.push_back(d.appendFilter(FltVal(id))); }
	bool removeFilter(int h) override { return d.removeFilter(fh[(size_t)h]); }
	void addListener(int key, int id, int kind, int how) override {
		typename D::Callback cb;
		if(kind == 1) cb = eventpp::conditionalFunctor(LstVal(id), CndVal { id }); else cb = LstVal(id);
		lh.push_back(how & 1 ? d.prependListener(key, cb) : d.appendListener(key, cb));
	}
	bool removeListener(int key, int h) override { return d.removeListener(key, lh[(size_t)h]); }
	void go(int key, Args & c, std::true_type, bool queued) { if(queued) { d.enqueue(key, c.s, c.a); d.process(); } else d.dispatch(key, c.s, c.a); }
	void go(int key, Args & c, std::false_type, bool) { d.dispatch(key, c.s, c.a); }
	void dispatch(int key, const Args & a, bool queued, Args & callerAfter) override { callerAfter = a; go(key, callerAfter, std::integral_constant<bool, IsQueue>(), queued); }
	long count() override { return 0; }
};

// argumentAdapter with reference / shared_ptr down-casts (no filters)
struct Adapt : IF
{
	struct PEx { using ArgumentPassingMode = eventpp::ArgumentPassingExcludeEvent; };
	eventpp::EventDispatcher<int, void (const Base &), PEx> dref;
	eventpp::EventDispatcher<int, void (std::shared_ptr<Base>), PEx> dptr;
	std::vector<std::pair<int, decltype(dref)::Handle> > lref;
	std::vector<std::pair<int, decltype(dptr)::Handle> > lptr;
	std::vector<int> which; // per listener handle index: 0 ref, 1 ptr
	std::vector<size_t> slot;
	bool hasFilters() const override { return false; }
	bool canWriteA() const override { return false; }
	bool twoDispatchers() const override { return true; }
	int listenerKinds() const override { return 4; }
	int countMixin() const override { return 0; }
	void appendFilter(int) override {}
	bool removeFilter(int) override { return false; }
	void addListener(int key, int id, int kind, int how) override {
		// kinds: 0 plain Base&, 1 adapter to Derived&, 2 plain shared_ptr<Base>, 3 adapter to shared_ptr<Derived>
		if(kind < 2) {
			decltype(dref)::Callback cb;
			if(kind == 1) cb = eventpp::argumentAdapter<void (const Derived &)>(LstDerived { id }); else cb = LstBase { id };
			which.push_back(0); slot.push_back(lref.size());
			lref.push_back(std::make_pair(key, how & 1 ? dref.prependListener(key, cb) : dref.appendListener(key, cb)));
		}
		else {
			decltype(dptr)::Callback cb;
			if(kind == 3) cb = eventpp::argumentAdapter<void (std::shared_ptr<Derived>)>(LstSharedDerived { id }); else cb = LstSharedBase { id };
			which.push_back(1); slot.push_back(lptr.size());
			lptr.push_back(std::make_pair(key, how & 1 ? dptr.prependListener(key, cb) : dptr.appendListener(key, cb)));
		}
	}
	bool removeListener(int key, int h) override {
		if(which[(size_t)h] == 0) return dref.removeListener(key, lref[slot[(size_t)h]].second);
		return dptr.removeListener(key, lptr[slot[(size_t)h]].second);
	}
	void dispatch(int key, const Args & a, bool viaPtr, Args & callerAfter) override {
		callerAfter = a;
		if(viaPtr) { std::shared_ptr<Derived> p = std::make_shared<Derived>(); p->a = a.a; p->s = a.s; dptr.dispatch(key, p); }
		else { Derived dd; dd.a = a.a; dd.s = a.s; dref.dispatch(key, dd); }
	}
	long count() override { return 0; }
};

const int kConfigs = 14;      // generated: 0..kAllConfigs-1 without the two configurations of known finding E15
const int kAllConfigs = 16;
const int kKnownFirst = 14;   // 14, 15: interceptor-less mixin in front of MixinFilter (E15), replay tier only
IF * makeImpl(int cfg)
{
	using DA = eventpp::EventDispatcher<int, void (int, std::string), PFilter>;
	using QB = eventpp::EventQueue<int, void (const int &, std::string &), PFilter>;
	using DC1 = eventpp::EventDispatcher<int, void (int, std::string), PFilterCount>;
	using QC2 = eventpp::EventQueue<int, void (int, std::string), PCountFilter>;
	using HL = eventpp::HeterTuple<void (int, std::string), void (int)>;
	using HD = eventpp::HeterEventDispatcher<int, HL, PHeterFilter>;
	// (HeterEventQueue + MixinHeterFilter cannot be instantiated for queued dispatch: process() passes the stored
	// arguments as const lvalues, which the filter prototypes bool(int&, std::string&) cannot bind; a compile-time limit)
	using QA = eventpp::EventQueue<int, void (int, std::string), PFilter>;
	switch(cfg) {
	case 0: return new Homo<DA, true, 0, false>();
	case 1: return new Homo<QB, false, 0, true>();
	case 2: return new Homo<DC1, true, 1, false>();
	case 3: return new Homo<QC2, true, 2, true>();
	case 4: return new Heter<HD, false>();
	case 5: return new Homo<QA, true, 0, true>();
	case 6: return new Cont();
	case 7: return new Adapt();
	case 8: return new ContVal<false>();
	case 9: return new ContVal<true>();
	case 10: return new Homo<eventpp::EventDispatcher<int, void (int, std::string), PFilterGate>, true, 1, false>();
	case 12: return new Homo<eventpp::EventDispatcher<int, void (int, std::string), PFilterPlain>, true, 0, false>();
	case 13: return new Homo<eventpp::EventQueue<int, void (int, std::string), PFilterPlain>, true, 0, true>();
	case 14: return new Homo<eventpp::EventDispatcher<int, void (int, std::string), PPlainFilter>, true, 0, false>();
	case 15: return new Homo<eventpp::EventQueue<int, void (int, std::string), PPlainFilter>, true, 0, true>();
	default: return new Homo<eventpp::EventQueue<int, void (int, std::string), PGateFilter>, true, 2, true>();
	}
}

// ---------------------------------------------------------------- model

struct FilterSpec { int delta; int rule; int param; };
struct ListenerSpec { int key; int kind; int rule; int adaptKind; int pos; };

struct DFrame
{
	int key;
	Args cur;
	InvokeFrame finv, linv;
	bool inFilters = true;
	bool blocked = false;
	bool stopped = false;
	int pendingCond = -1; // conditionalFunctor: condition evaluated true, listener call pending
	bool viaPtr = false;
};

struct Interp
{
	const Program & prog;
	Verdict & v;
	std::unique_ptr<IF> impl;
	ListModel filters;
	ListModel lists[kKeys];
	std::vector<FilterSpec> fspec;
	std::vector<ListenerSpec> lspec;
	std::vector<const std::vector<Op> *> fbody, lbody;
	std::vector<DFrame> frames;
	long expectCount = 0;
	int fuel = kFuel;
	bool failed = false;
	std::ostringstream log;
	bool rewriteThenBlock = false, direct = false, queued = false, twoFilters = false, condFalse = false, adapterUsed = false, stoppedByPolicy = false, firstListenerFromFilter = false;

	Interp(const Program & p, Verdict & v_) : prog(p), v(v_) {}
	// the rules of a dispatch with mixins also belong to the property of the entry point: direct dispatch (C04), queued (C05)
	std::string dom() const {
		if(frames.empty()) return "C12,C04,C05";
		return frames.front().viaPtr ? "C12,C05" : "C12,C04";
	}
	void fail(const std::string & rule, const std::string & msg) {
		if(failed) return;
		failed = true;
		std::string s = log.str();
		if(s.size() > 600) s = "..." + s.substr(s.size() - 600);
		v.fail(rule, dom(), msg + " | log: " + s, knownCfg ? "filter.plainmixin.front" : "");
	}
	bool knownCfg = false;
	bool callerKeyClobbered = false;
	static std::string show(const Args & a) { return "(" + std::to_string(a.a) + ", \"" + a.s + "\")"; }

	bool filterVerdict(const FilterSpec & f, const Args & a) {
		switch(f.rule % 4) {
		case 0: return true;
		case 1: return false;
		case 2: return (a.a % 3) != f.param % 3;
		default: return (int)a.s.size() <= 2 + f.param % 6;
		}
	}

	bool filterCall(int id, int & a, std::string & s, bool canWriteA) {
		if(failed) return false;
		if(frames.empty()) { fail("filter.spurious", "filter f" + std::to_string(id) + " called outside a dispatch"); return false; }
		DFrame & f = frames.back();
		if(! f.inFilters || f.blocked) { fail("filter.phase", "filter f" + std::to_string(id) + " ran after the filter chain had finished or had been blocked"); return false; }
		int due = f.finv.due(filters);
		if(due != id) { fail("filter.order", "filter f" + std::to_string(id) + " ran, next due is " + (due < 0 ? std::string("none") : "f" + std::to_string(due))); return false; }
		f.finv.advance(id);
		Args got { a, s };
		if(! (got == f.cur)) { fail("filter.args", "filter f" + std::to_string(id) + " received " + show(got) + " but the arguments after the earlier filters are " + show(f.cur)); return false; }
		const FilterSpec & sp = fspec[(size_t)id];
		if(sp.delta) {
			if(canWriteA) { a += sp.delta; f.cur.a += sp.delta; }
			s += (char)('a' + (sp.delta & 7));
			f.cur.s += (char)('a' + (sp.delta & 7));
		}
		bool verdict = filterVerdict(sp, f.cur);
		if(sp.delta && ! verdict) rewriteThenBlock = true;
		if(sp.delta && f.finv.calls >= 2 && ! verdict) rewriteThenBlock = true;
		log << " f" << id << (verdict ? "+" : "-");
		if(! verdict) f.blocked = true;
		if(--fuel > 0 && fbody[(size_t)id] && ! fbody[(size_t)id]->empty()) exec(*fbody[(size_t)id], (int)frames.size());
		return verdict;
	}

	int dueListener(DFrame & f) {
		if(f.inFilters) {
			// the first listener call closes the filter phase: every filter still in the list must have run
			int due = f.finv.due(filters);
			if(due >= 0) { fail("filter.skipped", "listeners ran although filter f" + std::to_string(due) + " had not been asked"); return -2; }
			f.inFilters = false;
			f.linv.begin(lists[f.key]);
			if(impl->countMixin() == 1) ++expectCount;
		}
		return f.linv.due(lists[f.key]);
	}

	bool conditionCall(int id, int a, const std::string & s) {
		if(failed) return false;
		if(frames.empty()) { fail("cond.spurious", "condition called outside a dispatch"); return false; }
		DFrame & f = frames.back();
		if(f.blocked) { fail("filter.blocked.listener", "a listener's condition ran although a filter had blocked the dispatch"); return false; }
		int due = dueListener(f);
		if(failed) return false;
		if(due != id) { fail("cond.order", "condition of listener l" + std::to_string(id) + " evaluated, next due is l" + std::to_string(due)); return false; }
		Args got { a, s };
		if(! (got == f.cur)) { fail("cond.args", "condition of l" + std::to_string(id) + " received " + show(got) + ", dispatched arguments are " + show(f.cur)); return false; }
		f.linv.advance(id);
		bool r = ((a + (int)s.size()) % 3) != lspec[(size_t)id].rule % 3;
		log << " c" << id << "=" << r;
		if(r) f.pendingCond = id; else condFalse = true;
		// the policy is consulted after every callback of the list, also one whose wrapped listener did not run
		if(! r && impl->continueByValue() && f.cur.a < 0) { f.stopped = true; stoppedByPolicy = true; }
		return r;
	}

	void listenerCall(int id, int a, const std::string & s, int via) {
		if(failed) return;
		if(frames.empty()) { fail("listener.spurious", "listener l" + std::to_string(id) + " called outside a dispatch"); return; }
		DFrame & f = frames.back();
		if(f.blocked) { fail("filter.blocked.listener", "listener l" + std::to_string(id) + " ran although a filter returned false for this dispatch"); return; }
		if(f.stopped) { fail("continue.ignored", "listener l" + std::to_string(id) + " ran although canContinueInvoking had returned false"); return; }
		const ListenerSpec & sp = lspec[(size_t)id];
		if(sp.kind == 1) {
			if(f.pendingCond != id) { fail("cond.missing", "conditional listener l" + std::to_string(id) + " ran without its condition holding"); return; }
			f.pendingCond = -1;
		}
		else {
			int due = dueListener(f);
			if(failed) return;
			if(due != id) { fail("listener.order", "listener l" + std::to_string(id) + " ran, next due is " + (due < 0 ? std::string("none") : "l" + std::to_string(due))); return; }
			f.linv.advance(id);
		}
		Args expect = f.cur;
		if(via == 2) expect.a = (int)(signed char)expect.a; // adapter to signed char: static_cast of the same value
		Args got { a, s };
		if(! (got == expect)) { fail("listener.args", "listener l" + std::to_string(id) + " received " + show(got) + ", the arguments after the filters are " + show(expect)); return; }
		if(via) adapterUsed = true;
		log << " l" << id;
		if(impl->canContinue()) {
			// listeners of the canContinueInvoking subject may raise the stop flag (rule on the listener)
			if((sp.rule % 3) == 0) { pendingStop = true; }
		}
		if(impl->continueByValue() && f.cur.a < 0) { f.stopped = true; stoppedByPolicy = true; }
		if(--fuel > 0 && lbody[(size_t)id] && ! lbody[(size_t)id]->empty()) exec(*lbody[(size_t)id], (int)frames.size());
	}
	bool pendingStop = false;

	void exec(const std::vector<Op> & ops, int depth) {
		for(const Op & op : ops) { if(failed) return; execOp(op, depth); }
	}

	void execOp(const Op & op, int depth) {
		log << ' ' << kindName(op.kind);
		switch(op.kind) {
		case F_APPENDFILTER: {
			if(! impl->hasFilters()) break;
			int id = (int)fspec.size();
			fspec.push_back(FilterSpec { op.a, op.b, op.c });
			fbody.push_back(&op.body);
			filters.append(id);
			impl->appendFilter(id);
			log << "(f" << id << " d" << op.a << " r" << (op.b % 4) << ")";
			break;
		}
		case F_REMOVEFILTER: {
			if(fspec.empty()) break;
			int h = ((op.a % (int)fspec.size()) + (int)fspec.size()) % (int)fspec.size();
			bool expect = filters.remove(h);
			bool r = impl->removeFilter(h);
			if(r != expect) fail("filter.remove.result", "removeFilter returned " + std::to_string(r) + ", model says " + std::to_string(expect));
			break;
		}
		case F_ADDLISTENER: {
			int key = op.a & 1;
			int kinds = impl->listenerKinds();
			int kind = ((op.b % kinds) + kinds) % kinds;
			int id = (int)lspec.size();
			const int implKey = key;
			if(impl->twoDispatchers() && kind >= 2) key += 2;
			ListenerSpec sp { key, impl->hasFilters() || impl->canContinue() ? kind : 0, op.c, kind, 0 };
			if(! impl->hasFilters()) sp.kind = 0;
			lspec.push_back(sp);
			lbody.push_back(&op.body);
			if(op.c & 8) lists[key].prepend(id); else lists[key].append(id);
			if(! frames.empty() && frames.back().inFilters && frames.back().key == key && lists[key].nodes.size() == 1) firstListenerFromFilter = true;
			impl->addListener(implKey, id, kind, (op.c & 8) ? 1 : 0);
			log << "(k" << key << ":l" << id << " kind" << kind << ")";
			break;
		}
		case F_REMOVELISTENER: {
			if(lspec.empty()) break;
			int h = ((op.a % (int)lspec.size()) + (int)lspec.size()) % (int)lspec.size();
			int key = lspec[(size_t)h].key;
			bool expect = lists[key].remove(h);
			bool r = impl->removeListener(key & 1, h);
			if(r != expect) fail("listener.remove.result", "removeListener returned " + std::to_string(r) + ", model says " + std::to_string(expect));
			break;
		}
		case F_DISPATCH: {
			if((int)frames.size() >= kMaxDepth || fuel <= 0) break;
			DFrame f;
			f.key = op.a & 1;
			static const char * strs[] = { "", "x", "hello", "a-long-string-that-does-not-fit-the-small-buffer" };
			f.cur = Args { ((op.b < 0 ? -op.b : op.b) % 200) - 20, strs[op.c & 3] };
			const bool q = (op.c & 4) != 0 && frames.empty();
			f.viaPtr = q;
			const int implKey = f.key;
			if(impl->twoDispatchers() && q) f.key += 2;
			if(impl->canContinue()) f.cur.a = (f.cur.a & ~1) | f.key;
			f.finv.begin(filters);
			if(filters.nodes.size() >= 2) twoFilters = true;
			if(q) queued = true; else direct = true;
			if(impl->countMixin() == 2) ++expectCount;
			const Args sent = f.cur;
			frames.push_back(f);
			log << "(k" << f.key << " " << show(sent) << (q ? " queued" : "") << "){";
			Args callerAfter;
			pendingStop = false;
			impl->dispatch(implKey, sent, q, callerAfter);
			log << "}";
			if(! failed) {
				DFrame & fr = frames.back();
				if(! fr.blocked) {
					int due = dueListener(fr);
					if(! failed && due >= 0 && ! fr.stopped) fail("listener.missed", "dispatch returned without calling listener l" + std::to_string(due));
				}
				else if(fr.finv.calls == 0) fail("filter.internal", "blocked without a filter call");
			}
			frames.pop_back();
			break;
		}
		default: break;
		}
		(void)depth;
	}

	void run() {
		const int cfg = prog.params.empty() ? 0 : ((prog.params[0] % kAllConfigs) + kAllConfigs) % kAllConfigs;
		knownCfg = cfg >= kKnownFirst;
		impl.reset(makeImpl(cfg));
		exec(prog.ops, 0);
		if(! failed && impl->countMixin() && impl->count() != expectCount) {
			fail("mixin.count", "the second mixin ran " + std::to_string(impl->count()) + " times, expected " + std::to_string(expectCount) + " (a mixin after a blocking filter must not run; one before it always runs)");
		}
		impl.reset();
		if(! failed && ledger().isFlagged()) { failed = true; v.fail("ledger.flag", "C08,C12", ledger().message()); }
		if(! failed && ledger().totalLive() != 0) { failed = true; v.fail("ledger.leak", "C08,C12", std::to_string(ledger().totalLive()) + " filter/listener object(s) alive after the dispatcher was destroyed"); }
	}
};

void Lst::operator() (Ev & e) const
{
	touch();
	onListener(id - kCbBase, e.v, e.tag, 0);
	if(g_f && g_f->pendingStop) {
		e.stop = true;
		g_f->pendingStop = false;
		if(! g_f->frames.empty()) { g_f->frames.back().stopped = true; g_f->stoppedByPolicy = true; }
	}
}

bool onFilter(int id, int & a, std::string & s, bool w)
{
	if(g_liveKey && (id & 1) && (*g_liveKey == 0 || *g_liveKey == 1)) { *g_liveKey = 1 - *g_liveKey; if(g_f) g_f->callerKeyClobbered = true; }
	return g_f ? g_f->filterCall(id, a, s, w) : true;
}
void onListener(int id, int a, const std::string & s, int via) { if(g_f) g_f->listenerCall(id, a, s, via); }
bool onCondition(int id, int a, const std::string & s) { return g_f ? g_f->conditionCall(id, a, s) : false; }

Grammar makeGrammar()
{
	Grammar g;
	g.params = { ArgSpec(0, kConfigs - 1) };
	g.maxDepth = 2;
	g.maxTotalOps = 100;
	Level top;
	top.minOps = 1;
	top.maxOps = 40;
	top.kinds = {
		{ F_APPENDFILTER, "appendFilter", 10, ArgSpec(0, 5, 0, 0, 30), ArgSpec(0, 3, 2, 3, 50), ArgSpec(0, 11), 1, 2 },
		{ F_REMOVEFILTER, "removeFilter", 3, ArgSpec(0, 20), ArgSpec(0, 0), ArgSpec(0, 0), -1, 0 },
		{ F_ADDLISTENER, "addListener", 10, ArgSpec(0, 1), ArgSpec(0, 3), ArgSpec(0, 15), 1, 2 },
		{ F_REMOVELISTENER, "removeListener", 3, ArgSpec(0, 20), ArgSpec(0, 0), ArgSpec(0, 0), -1, 0 },
		{ F_DISPATCH, "dispatch", 18, ArgSpec(0, 1), ArgSpec(0, 400), ArgSpec(0, 7), -1, 0 },
	};
	g.levels.push_back(top);
	Level body; // scripts of filters and listeners
	body.kinds = {
		{ F_REMOVEFILTER, "removeFilter", 4, ArgSpec(0, 20), ArgSpec(0, 0), ArgSpec(0, 0), -1, 0 },
		{ F_APPENDFILTER, "appendFilter", 2, ArgSpec(0, 5), ArgSpec(0, 3), ArgSpec(0, 11), -1, 0 },
		{ F_REMOVELISTENER, "removeListener", 2, ArgSpec(0, 20), ArgSpec(0, 0), ArgSpec(0, 0), -1, 0 },
		{ F_DISPATCH, "dispatch", 1, ArgSpec(0, 1), ArgSpec(0, 400), ArgSpec(0, 3), -1, 0 },
		// a filter (or listener) that registers a listener, possibly the first one of the event being dispatched
		{ F_ADDLISTENER, "addListener", 3, ArgSpec(0, 1), ArgSpec(0, 3), ArgSpec(0, 15), -1, 0 },
	};
	g.levels.push_back(body);
	return g;
}
const Grammar & grammar(const std::string &) { static Grammar g = makeGrammar(); return g; }

long g_caseCounter = 0;
Verdict run(const Program & p, const std::string & prop)
{
	Verdict v;
	v.trace.reserve(4096);
	v.classes.reserve(16);
	ledger().reset();
	LeakScope scope;
	{
		Interp in(p, v);
		g_f = &in;
		in.run();
		g_f = nullptr;
		auto cls = [&](bool b, const char * n) { if(b) v.classes.push_back(n); };
		cls(in.rewriteThenBlock, "rewriting_filter_then_block");
		cls(in.twoFilters, "two_or_more_filters");
		cls(in.direct, "direct_dispatch");
		cls(in.queued, "queued_dispatch");
		cls(in.condFalse, "condition_false");
		cls(in.adapterUsed, "argument_adapter_listener");
		cls(in.stoppedByPolicy, "stopped_by_canContinueInvoking");
		cls(in.firstListenerFromFilter, "filter_registered_the_first_listener_of_the_dispatched_event");
		cls(in.callerKeyClobbered, "filter_overwrote_the_callers_event_object_during_direct_dispatch");
		if(prop == "C04") v.nontrivial = in.twoFilters && in.direct;
		else if(prop == "C05") v.nontrivial = in.twoFilters && in.queued;
		else v.nontrivial = (in.twoFilters && in.rewriteThenBlock) || in.stoppedByPolicy || in.adapterUsed;
		const std::string full = in.log.str();
		v.trace.assign(full, 0, std::min<size_t>(full.size(), 4000));
	}
	ledger().reset();
	if(v.ok && (scope.grew() || (++g_caseCounter & 1023) == 0)) {
		if(confirmLeak()) v.fail("lsan.leak", "C08,C12", "LeakSanitizer: memory unreachable after the dispatcher was destroyed", "lsan.leak");
	}
	return v;
}
} // namespace

namespace vf {
const Harness g_harness = { "filter", &grammar, &run, &kindName, nullptr };
}
