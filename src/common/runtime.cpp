// Runtime shared by all harness binaries: case execution wrapper, statistics, crash capture, main().
// Compiled once by setup; does not include eventpp or rapidcheck.
#include "harness.h"
#include "leak.h"

#include <csignal>
#include <cstdio>
#include <cstdlib>
#include <cstring>
#include <exception>
#include <set>
#include <unordered_set>
#include <unistd.h>
#include <sys/syscall.h>
#include <fcntl.h>
#include <chrono>
#include <atomic>
#include <thread>

extern "C" void __sanitizer_set_death_callback(void (*callback)(void)) __attribute__((weak));


namespace vf {

int rcMain(); // engine_rc.cpp (weak: the fuzz binary does not link it)
int rcMain() __attribute__((weak));

static RunConfig & g_cfg = *new RunConfig; // never destroyed: crash / sanitizer callbacks may run during static destruction
RunConfig & config() { return g_cfg; }

namespace {

struct Stats
{
	long evaluations = 0;
	long subEvaluations = 0;
	long shrinkRuns = 0;
	long failures = 0;
	long nontrivial = 0;
	std::unordered_set<uint64_t> ntHashes;
	std::map<std::string, long> classes;
	std::map<std::string, long> foreign;
	std::vector<std::pair<std::string, std::string> > samples; // (program, trace) of non-trivial cases
	std::vector<std::pair<std::string, std::string> > fallback; // first cases of the run, used when no non-trivial sample exists
	std::chrono::steady_clock::time_point start = std::chrono::steady_clock::now();
};
Stats & g_stats = *new Stats; // never destroyed (see g_cfg)
Verdict & g_last = *new Verdict;

const size_t kCaseBuf = 1 << 20;
char g_caseBuf[kCaseBuf];
size_t g_caseLen = 0;
volatile sig_atomic_t g_inCase = 0;
volatile sig_atomic_t g_dying = 0;

std::string jsonEscape(const std::string & s)
{
	std::string o;
	o.reserve(s.size() + 8);
	for(unsigned char c : s) {
		switch(c) {
		case '"': o += "\\\""; break;
		case '\\': o += "\\\\"; break;
		case '\n': o += "\\n"; break;
		case '\r': o += "\\r"; break;
		case '\t': o += "\\t"; break;
		default:
			if(c < 0x20) { char b[8]; snprintf(b, sizeof b, "\\u%04x", c); o += b; }
			else o += (char)c;
		}
	}
	return o;
}

std::string outPath(const char * stem, const char * ext)
{
	return g_cfg.outDir + "/" + stem + "." + g_cfg.tag + "." + ext;
}

void rawWriteFile(const char * path, const char * head, const char * data, size_t len)
{
	int fd = open(path, O_WRONLY | O_CREAT | O_TRUNC, 0644);
	if(fd < 0) return;
	ssize_t r = write(fd, head, strlen(head)); (void)r;
	r = write(fd, data, len); (void)r;
	close(fd);
}

void dumpCrash(const char * why)
{
	if(g_dying) return;
	g_dying = 1;
	static char path[4096];
	snprintf(path, sizeof path, "%s/crash.%s.replay", g_cfg.outDir.c_str(), g_cfg.tag.c_str());
	static char head[512];
	snprintf(head, sizeof head, "# rule=crash prop=* sig=crash\n# msg=%s\n", why);
	if(g_inCase) rawWriteFile(path, head, g_caseBuf, g_caseLen);
	alarm(10);
	writeStats();
}

void onSignal(int sig)
{
	static char why[64];
	snprintf(why, sizeof why, "signal %d", sig);
	dumpCrash(why);
	signal(sig, SIG_DFL);
	raise(sig);
}

void onSanitizerDeath() { dumpCrash("sanitizer report"); }

void onTerminate()
{
	static const char msg[] = "std::terminate called (an exception met a noexcept boundary, or was thrown while another was in flight)\n";
	ssize_t r = write(2, msg, sizeof msg - 1); (void)r;
	dumpCrash("std::terminate");
	signal(SIGABRT, SIG_DFL);
	abort();
}

std::atomic<long long> g_caseStartMs(0);

long long nowMs()
{
	return std::chrono::duration_cast<std::chrono::milliseconds>(std::chrono::steady_clock::now().time_since_epoch()).count();
}

// A case that does not finish (a re-locked std::mutex, a spin lock that is never released, a lost wake-up
// outside the controlled scheduler) is turned into a replay file + exit code EXIT_HANG by this thread.
void watchdogLoop()
{
	long limitMs = 30000;
	if(const char * e = getenv("VERIF_CASE_TIMEOUT_MS")) limitMs = atol(e);
	for(;;) {
		std::this_thread::sleep_for(std::chrono::milliseconds(250));
		const long long st = g_caseStartMs.load();
		if(st > 0 && nowMs() - st > limitMs) {
			dieWithFailure("hang", "case did not finish within " + std::to_string(limitMs) + " ms", EXIT_HANG);
		}
	}
}

void installCrashHandlers()
{
	static bool done = false;
	if(done) return;
	done = true;
	std::thread(watchdogLoop).detach();
	signal(SIGABRT, onSignal);
	// SIGSEGV etc. are taken by ASan when present (it then calls the death callback);
	// without a sanitizer we take them ourselves
	if(__sanitizer_set_death_callback) {
		__sanitizer_set_death_callback(onSanitizerDeath);
	}
	else {
		signal(SIGSEGV, onSignal);
		signal(SIGBUS, onSignal);
		signal(SIGFPE, onSignal);
		signal(SIGILL, onSignal);
	}
	std::set_terminate(onTerminate);
}

} // namespace

std::string caseText(const Program & p)
{
	return toText(p, g_harness.kindName);
}

const Verdict & lastVerdict() { return g_last; }

static bool ruleIsMine(const Verdict & v)
{
	if(v.prop == "*" || v.prop.empty()) return true;
	// a rule may belong to several properties: "C05,C13"
	size_t pos = 0;
	const std::string & mine = g_cfg.prop;
	while(pos <= v.prop.size()) {
		size_t e = v.prop.find(',', pos);
		if(e == std::string::npos) e = v.prop.size();
		if(v.prop.compare(pos, e - pos, mine) == 0) return true;
		pos = e + 1;
	}
	return false;
}

static std::string oneLine(std::string s)
{
	for(char & c : s) if(c == '\n' || c == '\r') c = ' ';
	if(s.size() > 1500) s.resize(1500);
	return s;
}

bool runCase(const Program & p, bool shrinking)
{
	installCrashHandlers();
	std::string text = caseText(p);
	g_caseLen = text.size() < kCaseBuf ? text.size() : kCaseBuf;
	memcpy(g_caseBuf, text.data(), g_caseLen);
	g_inCase = 1;
	g_caseStartMs.store(nowMs());
	Verdict v = g_harness.run(p, g_cfg.prop);
	g_caseStartMs.store(0);
	g_inCase = 0;
	// a failing case has usually leaked as well: find out now, so that later (innocent) cases and shrink candidates are not
	// blamed for that memory (see lsanPoisoned)
	if(! v.ok) confirmLeak();

	if(shrinking) ++g_stats.shrinkRuns;
	else {
		++g_stats.evaluations;
		g_stats.subEvaluations += v.subEvaluations > 0 ? v.subEvaluations : 1;
		for(const char * c : v.classes) ++g_stats.classes[c];
		if(g_stats.fallback.size() < 2) g_stats.fallback.push_back(std::make_pair(text, v.trace));
		if(v.nontrivial) {
			++g_stats.nontrivial;
			uint64_t h = fnv1a(toText(p));
			if(g_stats.ntHashes.size() < 2000000) g_stats.ntHashes.insert(h);
			if(g_stats.samples.size() < 3 && v.ok) {
				g_stats.samples.push_back(std::make_pair(text, v.trace));
			}
		}
	}
	g_last = v;
	if(v.ok) return true;
	if(! ruleIsMine(v)) {
		if(! shrinking) ++g_stats.foreign[v.rule];
		return true;
	}
	if(! shrinking) ++g_stats.failures;
	std::string head = "# rule=" + v.rule + " prop=" + v.prop + " sig=" + oneLine(v.sig) + "\n# msg=" + oneLine(v.msg) + "\n";
	std::string path = outPath("last_fail", "replay");
	rawWriteFile(path.c_str(), head.c_str(), text.data(), text.size());
	return false;
}

void dieWithFailure(const std::string & rule, const std::string & msg, int exitCode)
{
	std::string path = g_cfg.outDir + "/crash." + g_cfg.tag + ".replay";
	std::string head = "# rule=" + rule + " prop=* sig=" + rule + "\n# msg=" + oneLine(msg) + "\n";
	if(g_inCase) rawWriteFile(path.c_str(), head.c_str(), g_caseBuf, g_caseLen);
	printf("VERDICT fail rule=%s prop=* sig=%s msg=%s\n", rule.c_str(), rule.c_str(), oneLine(msg).c_str());
	fflush(stdout);
	g_dying = 1;
	writeStats();
	// the raw system call: _exit() is intercepted by the sanitizer runtimes, whose finalisation can block for ever when
	// another thread is in the middle of a report
	syscall(SYS_exit_group, exitCode);
	_exit(exitCode);
}

void writeStats()
{
	std::string path = outPath("stats", "json");
	FILE * f = fopen(path.c_str(), "w");
	if(! f) return;
	double wall = std::chrono::duration<double>(std::chrono::steady_clock::now() - g_stats.start).count();
	fprintf(f, "{\"harness\":\"%s\",\"prop\":\"%s\",\"evaluations\":%ld,\"sub_evaluations\":%ld,\"shrink_runs\":%ld,"
		"\"failures\":%ld,\"nontrivial\":%ld,\"distinct_nontrivial\":%zu,\"wall_s\":%.3f,\n",
		g_harness.name, g_cfg.prop.c_str(), g_stats.evaluations, g_stats.subEvaluations, g_stats.shrinkRuns,
		g_stats.failures, g_stats.nontrivial, g_stats.ntHashes.size(), wall);
	fprintf(f, "\"classes\":{");
	bool first = true;
	for(const auto & kv : g_stats.classes) {
		fprintf(f, "%s\"%s\":%ld", first ? "" : ",", jsonEscape(kv.first).c_str(), kv.second);
		first = false;
	}
	fprintf(f, "},\n\"foreign\":{");
	first = true;
	for(const auto & kv : g_stats.foreign) {
		fprintf(f, "%s\"%s\":%ld", first ? "" : ",", jsonEscape(kv.first).c_str(), kv.second);
		first = false;
	}
	fprintf(f, "},\n\"samples\":[");
	first = true;
	for(const auto & s : (g_stats.samples.empty() ? g_stats.fallback : g_stats.samples)) {
		fprintf(f, "%s{\"program\":\"%s\",\"trace\":\"%s\"}", first ? "" : ",",
			jsonEscape(s.first).c_str(), jsonEscape(s.second.size() > 4000 ? s.second.substr(0, 4000) + "..." : s.second).c_str());
		first = false;
	}
	fprintf(f, "]}\n");
	fclose(f);
	// hashes of the distinct non-trivial cases, for the union across processes
	std::string hp = outPath("nt", "bin");
	FILE * h = fopen(hp.c_str(), "wb");
	if(h) {
		// order is irrelevant (the driver builds a set)
		for(uint64_t v : g_stats.ntHashes) fwrite(&v, sizeof v, 1, h);
		fclose(h);
	}
}

static int replayMain(const std::vector<std::string> & files)
{
	int rc = 0;
	for(const std::string & path : files) {
		Program p;
		if(! loadProgram(path, p)) {
			printf("VERDICT error cannot parse %s\n", path.c_str());
			return 2;
		}
		bool ok = runCase(p);
		const Verdict & v = lastVerdict();
		if(ok && v.ok) {
			printf("VERDICT ok nontrivial=%d file=%s\n", v.nontrivial ? 1 : 0, path.c_str());
		}
		else if(ok) {
			printf("VERDICT ok foreign_rule=%s file=%s\n", v.rule.c_str(), path.c_str());
		}
		else {
			printf("VERDICT fail rule=%s prop=%s sig=%s msg=%s\n", v.rule.c_str(), v.prop.c_str(),
				oneLine(v.sig).c_str(), oneLine(v.msg).c_str());
			rc = 1;
		}
		if(! g_cfg.quiet && ! v.trace.empty()) printf("TRACE %s\n", oneLine(v.trace).c_str());
	}
	fflush(stdout);
	return rc;
}

static int enumMain()
{
	if(! g_harness.enumerate) {
		printf("ENUM none\n");
		return 0;
	}
	bool allOk = true;
	long n = 0;
	std::string space = g_harness.enumerate(g_cfg.prop, [&](const Program & p) -> bool {
		++n;
		if(! runCase(p)) { allOk = false; return false; }
		return true;
	});
	printf("ENUM cases=%ld complete=%d space=%s\n", n, allOk ? 1 : 0, space.c_str());
	return allOk ? 0 : 1;
}

} // namespace vf

#ifndef VERIF_NO_MAIN
int main(int argc, char ** argv)
{
	using namespace vf;
	std::string mode;
	std::vector<std::string> files;
	for(int i = 1; i < argc; ++i) {
		std::string a = argv[i];
		if(a == "--prop" && i + 1 < argc) config().prop = argv[++i];
		else if(a == "--out" && i + 1 < argc) config().outDir = argv[++i];
		else if(a == "--tag" && i + 1 < argc) config().tag = argv[++i];
		else if(a == "--quiet") config().quiet = true;
		else if(a == "--rc" || a == "--enum" || a == "--replay") mode = a;
		else files.push_back(a);
	}
	int rc = 2;
	if(mode == "--replay") rc = replayMain(files);
	else if(mode == "--enum") rc = enumMain();
	else if(mode == "--rc") {
		if(! rcMain) { fprintf(stderr, "no rapidcheck engine linked\n"); return 2; }
		rc = rcMain();
	}
	else {
		fprintf(stderr, "usage: %s --prop Cxx --out DIR --tag T (--rc | --enum | --replay FILE...)\n", argv[0]);
		return 2;
	}
	writeStats();
	return rc;
}
#endif
