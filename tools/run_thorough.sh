#!/bin/bash
# every thorough check in turn on the current tree (hours); usage: tools/run_thorough.sh [IDs...]
cd /verif
ids="$@"
[ -z "$ids" ] && ids=$(python3 -c "import sys; sys.path.insert(0,'lib'); import props; print(' '.join(sorted(props.PROPS)))")
for p in $ids; do
  s=$(date +%s)
  r=$(./check $p --tier thorough 2>&1 | grep -E "^(OK|VIOLATION|NOTE|KNOWN-FINDING|BROKEN)" | cut -c1-200 | tr '\n' ' ')
  echo "$p: $r ($(( $(date +%s) - s )) s)"
done
