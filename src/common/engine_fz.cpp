// libFuzzer engine: structure-aware decoding of the fuzzer's bytes into a Program with the harness
// grammar (never rejects), then runCase. Configured by VERIF_PROP / VERIF_OUT / VERIF_TAG.
#include "harness.h"

#include <cstdlib>

namespace vf {
namespace {

struct Reader
{
	const uint8_t * p;
	size_t n, pos;
	uint32_t u8() { return pos < n ? p[pos++] : 0; }
	uint32_t u16() { uint32_t a = u8(); return a | (u8() << 8); }
	bool done() const { return pos >= n; }
	int range(int lo, int hi) {
		if(hi <= lo) return lo;
		uint32_t span = (uint32_t)(hi - lo) + 1;
		uint32_t v = span <= 256 ? u8() : u16();
		return lo + (int)(v % span);
	}
	int arg(const ArgSpec & s) {
		if(s.biasPct > 0) {
			if((int)(u8() % 100) < s.biasPct) return range(s.blo, s.bhi);
		}
		return range(s.lo, s.hi);
	}
};

void decodeOps(Reader & r, const Grammar & g, int level, int depth, int maxOps, std::vector<Op> & out, long & budget)
{
	const Level & lv = g.levels[level];
	int total = 0;
	for(const KindSpec & k : lv.kinds) total += k.weight;
	if(total <= 0) return;
	int n = r.range(0, maxOps);
	for(int i = 0; i < n && budget > 0 && ! r.done(); ++i) {
		int w = r.range(0, total - 1);
		const KindSpec * ks = &lv.kinds[0];
		for(const KindSpec & k : lv.kinds) {
			if(w < k.weight) { ks = &k; break; }
			w -= k.weight;
		}
		Op op;
		op.kind = ks->kind;
		op.a = r.arg(ks->a);
		op.b = r.arg(ks->b);
		op.c = r.arg(ks->c);
		--budget;
		if(ks->bodyLevel >= 0 && depth < g.maxDepth && ks->bodyMax > 0) {
			decodeOps(r, g, ks->bodyLevel, depth + 1, ks->bodyMax, op.body, budget);
		}
		out.push_back(std::move(op));
	}
}

bool g_init = false;

void init()
{
	if(g_init) return;
	g_init = true;
	if(const char * e = getenv("VERIF_PROP")) config().prop = e;
	if(const char * e = getenv("VERIF_OUT")) config().outDir = e;
	if(const char * e = getenv("VERIF_TAG")) config().tag = e;
	atexit(writeStats);
}

} // namespace

Program decodeProgram(const uint8_t * data, size_t size)
{
	const Grammar & g = g_harness.grammar(config().prop);
	Reader r { data, size, 0 };
	Program p;
	for(const ArgSpec & s : g.params) p.params.push_back(r.arg(s));
	int ns = g.maxSched > 0 ? r.range(0, g.maxSched) : 0;
	for(int i = 0; i < ns; ++i) p.sched.push_back((uint8_t)r.u8());
	long budget = g.maxTotalOps;
	decodeOps(r, g, 0, 0, g.levels[0].maxOps, p.ops, budget);
	return p;
}

} // namespace vf

extern "C" int LLVMFuzzerTestOneInput(const uint8_t * data, size_t size)
{
	using namespace vf;
	init();
	Program p = decodeProgram(data, size);
	if(! runCase(p)) {
		// the failing case is in <out>/last_fail.<tag>.replay; stop the campaign the libFuzzer way
		writeStats();
		__builtin_trap();
	}
	return 0;
}
