#!/bin/bash
# usage: tools/try_seed.sh <seed-id> [IDs...]   e.g. tools/try_seed.sh C06-a C06
# Runs the named checks (default: the seed's own property) against a scratch worktree of /repo with seeded/<seed-id>/patch.diff
# applied. /repo's working tree, evidence/ and violations/ are not touched (VERIF_REPO / VERIF_OUT); the scratch tree and its
# outputs are removed afterwards. Prints one line per check. With KEEP_REPLAY=1 the minimised replay of a caught seed is
# copied to regress/<ID>/<harness>/seed-<seed-id>.replay (it passes on the unchanged tree and joins the replay tier).
seed=$1; shift
props="$@"; [ -z "$props" ] && props=${seed%%-*}
wt=/var/tmp/tryseed_$seed.$$; out=/var/tmp/tryseed_out_$seed.$$
git -C /repo worktree add -q --detach $wt HEAD || exit 2
git -C $wt apply /verif/seeded/$seed/patch.diff || { echo "$seed: patch does not apply"; git -C /repo worktree remove --force $wt; exit 2; }
mkdir -p $out
for p in $props; do
  r=$(cd ${VERIF_DEV:-/verif} && VERIF_REPO=$wt VERIF_OUT=$out VERIF_SEED=${VERIF_SEED:-1} ./check $p ${VERIF_TIER:+--tier $VERIF_TIER} 2>&1 | grep -E "^(OK|VIOLATION|NOTE|BROKEN|  signature)" | head -3 | cut -c1-160 | tr '\n' ' ')
  echo "$seed $p: $r"
  if [ -n "$KEEP_REPLAY" ]; then
    f=$(echo "$r" | sed -n 's/.*replay=\([^ ]*\).*/\1/p')
    if [ -n "$f" ] && [ -f "$f" ]; then
      h=$(sed -n 's/^# harness=\([^ ]*\) .*/\1/p' $f | head -1)
      [ -n "$h" ] && mkdir -p /verif/regress/$p/$h && cp $f /verif/regress/$p/$h/seed-$seed.replay && echo "  kept regress/$p/$h/seed-$seed.replay"
    fi
  fi
done
git -C /repo worktree remove --force $wt; rm -rf $out
