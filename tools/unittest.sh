#!/bin/bash
# Build and run eventpp's own unit-test suite against the headers of TREE (default /repo), guard OFF.
# usage: tools/unittest.sh [TREE] [BUILD_DIR]    (BUILD_DIR default: a fresh directory under /var/tmp, removed afterwards)
TREE=${1:-/repo}
OUT=${2:-}
CLEAN=0
if [ -z "$OUT" ]; then OUT=$(mktemp -d /var/tmp/eventpp-ut.XXXXXX); CLEAN=1; fi
mkdir -p "$OUT"
SRC=$TREE/tests/unittest
pids=()
for f in $SRC/*.cpp; do
  o=$OUT/$(basename "$f" .cpp).o
  g++ -std=c++17 -O1 -w -I"$TREE/include" -I"$TREE/tests" -c "$f" -o "$o" &
  pids+=($!)
  while [ $(jobs -r | wc -l) -ge 16 ]; do sleep 0.2; done
done
rc=0
for p in "${pids[@]}"; do wait $p || rc=1; done
if [ $rc -ne 0 ]; then echo "UNITTEST BUILD FAILED"; [ $CLEAN = 1 ] && rm -rf "$OUT"; exit 2; fi
g++ "$OUT"/*.o -lpthread -o "$OUT/unittest" || { echo "UNITTEST LINK FAILED"; [ $CLEAN = 1 ] && rm -rf "$OUT"; exit 2; }
timeout 1200 "$OUT/unittest" > "$OUT/ut.log" 2>&1
rc=$?
tail -4 "$OUT/ut.log"
[ $CLEAN = 1 ] && rm -rf "$OUT"
exit $rc
