// CheckedMutex: a Threading-policy mutex for single-threaded harnesses that turns a re-lock by the
// owner (the deadlock C02 forbids) into an exception instead of a hang, and flags unbalanced unlocks.
#ifndef VERIF_CHECKED_H
#define VERIF_CHECKED_H

#include <exception>
#include <string>
#include <condition_variable>
#include <mutex>

#include <eventpp/eventpolicies.h>

namespace vf {

struct DeadlockDetected : std::exception
{
	const char * what() const noexcept override { return "vf::DeadlockDetected"; }
};

struct CheckedState
{
	bool unbalanced = false;
	long relocks = 0;
	void reset() { unbalanced = false; relocks = 0; }
};

inline CheckedState & checkedState()
{
	static CheckedState s;
	return s;
}

class CheckedMutex
{
public:
	CheckedMutex() : held(false) {}
	void lock() {
		if(held) {
			++checkedState().relocks;
			throw DeadlockDetected();
		}
		held = true;
	}
	bool try_lock() {
		if(held) return false;
		held = true;
		return true;
	}
	void unlock() {
		if(! held) checkedState().unbalanced = true;
		held = false;
	}

private:
	bool held;
};

// single-threaded stand-in for a condition variable usable with std::unique_lock<CheckedMutex>
struct CheckedCondVar
{
	void notify_one() noexcept {}
	void notify_all() noexcept {}
	template <class Lock, class Pred>
	void wait(Lock &, Pred pred) {
		// single-threaded: a wait whose predicate is false would block forever
		if(! pred()) throw DeadlockDetected();
	}
	template <class Lock, class Rep, class Period, class Pred>
	bool wait_for(Lock &, const std::chrono::duration<Rep, Period> &, Pred pred) {
		return pred();
	}
};

using CheckedThreading = eventpp::GeneralThreading<CheckedMutex, std::atomic, CheckedCondVar>;

} // namespace vf

#endif
