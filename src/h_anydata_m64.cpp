// AnyData<64>: instantiates the whole size x kind table for this capacity.
#include "h_anydata_impl.h"

namespace vfad {
#define VF_ROW(N) { &runCase<N, 0, 64>, &runCase<N, 1, 64>, &runCase<N, 2, 64>, &runCase<N, 3, 64>, &runCase<N, 4, 64>, &runCase<N, 5, 64> },
CaseFn caseTable64(int sizeIndex, int kind)
{
	static const CaseFn table[kNumSizes][6] = { VF_SIZES(VF_ROW) };
	return table[sizeIndex][kind];
}
} // namespace vfad
