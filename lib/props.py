"""Property table: which harness / engines / budgets decide each property, and the evidence texts."""

HARNESSES = {
    'cbl': dict(sources=['src/h_cbl.cpp']),
    # fault-enumeration variants: the same harness sources plus the replacement operator new (allocation failures)
    'cbl_f': dict(sources=['src/h_cbl.cpp', 'src/common/newfault.cpp'], flags=['-DVF_FAULTS']),
    'queue_f': dict(sources=['src/h_queue.cpp', 'src/common/newfault.cpp'], flags=['-DVF_FAULTS']),
    'remover_f': dict(sources=['src/h_remover.cpp', 'src/common/newfault.cpp'], flags=['-DVF_FAULTS']),
    'heter_f': dict(sources=['src/h_heter.cpp', 'src/common/newfault.cpp'], flags=['-DVF_FAULTS']),
    'queue': dict(sources=['src/h_queue.cpp']),
    'disp': dict(sources=['src/h_disp.cpp']),
    'cq': dict(sources=['src/h_cq.cpp']),
    'cl': dict(sources=['src/h_cl.cpp']),
    'remover': dict(sources=['src/h_remover.cpp']),
    'heter': dict(sources=['src/h_heter.cpp']),
    'filter': dict(sources=['src/h_filter.cpp']),
    'config': dict(sources=['src/h_config.cpp']),
    'copy': dict(sources=['src/h_copy.cpp']),
    'ts': dict(sources=['src/h_ts.cpp']),
    'anyid': dict(sources=['src/h_anyid.cpp']),
    'anydata': dict(sources=['src/h_anydata.cpp', 'src/h_anydata_m1.cpp', 'src/h_anydata_m24.cpp', 'src/h_anydata_m32.cpp', 'src/h_anydata_m64.cpp']),
}


THREADED = ('cq', 'cl', 'ts')


def std_stages(harness, quick_cases, thorough_cases, fuzz_runs=0, quick_procs=8, enum=False, max_size=100):
    quick = [dict(engine='replay', harness=harness)]
    thorough = [dict(engine='replay', harness=harness)]
    if enum:
        quick.append(dict(engine='enum', harness=harness))
        thorough.append(dict(engine='enum', harness=harness))
    chunk = 25000 if harness in THREADED else 0   # harnesses that create threads: bounded process lifetime (ASan keeps a record per thread)
    quick.append(dict(engine='rc', harness=harness, procs=quick_procs, cases=quick_cases, max_size=max_size, timeout=900, chunk=chunk))
    thorough.append(dict(engine='rc', harness=harness, procs=16, cases=thorough_cases, max_size=max_size, timeout=5400, chunk=chunk))
    if fuzz_runs:
        thorough.append(dict(engine='fuzz', harness=harness, procs=8, runs=fuzz_runs, timeout=3600))
    return dict(stages=quick), dict(stages=thorough)


def multi_stages(parts, fuzz=None, enum=None):
    """parts: list of (harness, quick_cases, thorough_cases[, quick_procs]); one replay stage per harness first."""
    quick, thorough = [], []
    for part in parts:
        h = part[0]
        quick.append(dict(engine='replay', harness=h))
        thorough.append(dict(engine='replay', harness=h))
    if enum:
        quick.append(dict(engine='enum', harness=enum))
        thorough.append(dict(engine='enum', harness=enum))
    for part in parts:
        h, qc, tc = part[0], part[1], part[2]
        qp = part[3] if len(part) > 3 else 8
        chunk = 25000 if h in THREADED else 0
        quick.append(dict(engine='rc', harness=h, procs=qp, cases=qc, timeout=900, chunk=chunk))
        thorough.append(dict(engine='rc', harness=h, procs=16, cases=tc, timeout=5400, chunk=chunk))
    for h, runs in (fuzz or []):
        thorough.append(dict(engine='fuzz', harness=h, procs=8, runs=runs, timeout=3600))
    return dict(stages=quick), dict(stages=thorough)


TSAN_ENV = {'TSAN_OPTIONS': 'suppressions=/verif/tools/tsan.supp halt_on_error=0 report_signal_unsafe=0 second_deadlock_stack=1'}


def tsan_stage(cases):
    """real threads + ThreadSanitizer (harness ts): sees a lock removed around a single container call, which is atomic under the controlled scheduler"""
    return dict(engine='rc', harness='ts', variant='tsan', procs=8, cases=cases, timeout=(300 if cases <= 1000 else 3600), env=TSAN_ENV, chunk=5000)


def sched_enum(stages, harness, k, procs, timeout, at=1):
    """bounded-exhaustive schedules (harness enumerator): every schedule with <= k preemptions of a fixed list of small thread programs"""
    stages['stages'].insert(at, dict(engine='enum', harness=harness, procs=procs, timeout=timeout, env={'VERIF_ENUM_K': str(k)}))


PROPS = {}


def prop(pid, level, rule, assumptions, quick, thorough, **kw):
    d = dict(level=level, rule=rule, assumptions=assumptions, quick=quick, thorough=thorough)
    d['technique'] = 'property-based testing (rapidcheck, stateful model-based) + coverage-guided fuzzing (libFuzzer, ASan/UBSan) against a reference model'
    d['level_text'] = ('Exploration: generated operation histories are executed against the real headers in lock-step with an independent reference model; '
                       'every divergence, sanitizer report, ledger flag or leak is a violation. Held = held on everything generated (counts in the evidence); nothing is proved.')
    d['level_note'] = ('Trusted: the harness model and ledger, clang++ 14 ASan/UBSan/LSan, rapidcheck, libFuzzer. Bounds: grammar sizes in DESIGN.md section 3; '
                       'compile-time universes (prototypes, policies) are finite tables.')
    d.update(kw)
    PROPS[pid] = d


# properties without a registered check yet (kept current while the framework is being built)
NOT_APPLICABLE = {}


COMMON_ASSUME = [
    'harness built with clang++ 14 -O1 -fsanitize=address,undefined against /repo/include of the working tree with -DEVENTPP_VERIF',
    'nothing is proved: "held" means held on every generated case; bounds are those of the grammar (see DESIGN.md section 3)',
]

q, t = std_stages('cbl', 2500, 150000, fuzz_runs=200000)
# clang's native __GNUC__ == 4 selects the 'GCC 4 patch' version of CallbackList::operator(): a second build covers it
q['stages'].append(dict(engine='rc', harness='cbl', variant='clang4', procs=8, cases=1200, timeout=900))
t['stages'].append(dict(engine='rc', harness='cbl', variant='clang4', procs=16, cases=50000, timeout=3600))
prop('C01', 'exploration',
     'rapidcheck-generated histories (<=80 ops) of append/prepend/insert/remove/ownsHandle/empty/invoke/forEach/forEachIf/'
     'hasListener/removeListener/hasAnyListener over live, stale, expired, empty and repeated handles, 4 prototypes x 8 policy configurations; '
     'oracle = independent vector model compared after every op + deep probe; non-trivial = an insert before a live non-head handle, '
     'a remove of a live handle and an op through a stale handle all happened before an invocation; distinct = distinct canonical program text',
     COMMON_ASSUME + ['argument values are sampled from int/Tracked pools', 'insert/remove through a handle of a different live list are not generated (documented UB)'],
     q, t)

q, t = multi_stages([('cbl', 2500, 100000), ('disp', 2000, 60000)], fuzz=[("cbl", 200000)])
q['stages'].append(dict(engine='rc', harness='cbl', variant='clang4', procs=8, cases=1200, timeout=900))
t['stages'].append(dict(engine='rc', harness='cbl', variant='clang4', procs=16, cases=50000, timeout=3600))
prop('C02', 'exploration',
     'rapidcheck-generated re-entrant programs: callbacks carry scripts (<=6 ops, nesting depth <=4, fuel 300 activations) that append/prepend/insert/'
     'remove (self, others, already removed), enumerate and re-invoke the list being invoked; lock-step comparison with a snapshot-filter model; '
     'non-trivial = a callback script mutated the list during an invocation and a later invocation or enumeration observed the result',
     COMMON_ASSUME + ['policies: std::mutex, SingleThreading, owner-tracking CheckedMutex (re-lock = deadlock), SpinLock'],
     q, t)

q, t = multi_stages([('cbl', 2000, 100000), ('queue', 2000, 100000), ('copy', 2500, 100000)])
prop('C10', 'exploration',
     'cbl multi-object histories (pool of <=4 lists; copy/move construct+assign, swap, destroy, churn, dirty placement storage) with nested scripts; the same for EventQueue (queue harness); '
     'harness copy: pools of EventDispatcher and EventQueue with MixinFilter, HeterCallbackList, HeterEventDispatcher with MixinHeterFilter and HeterEventQueue under the same transfer ops, every live object re-dispatched after each transfer; '
     'non-trivial = a transfer op followed by a mutation of a participant',
     COMMON_ASSUME + ['moved-from sources: only validity is required, the model adopts what the source reports',
                      'transfer ops on a list that is currently being invoked are not generated (unspecified)'],
     q, t)

q, t = std_stages('cbl', 8000, 100000)
prop('C19', 'exploration',
     'C02/C10 programs with nearWrap(k): the generation counter is placed k<=12 steps before its maximum through the guarded accessor, at top level or inside a callback; '
     'non-trivial = the wrap was observed with >=2 callbacks in the list, followed by >=2 invocations, with an add during an invocation after the wrap',
     COMMON_ASSUME + ['the 2^32 additions are replaced by the EVENTPP_VERIF accessor verifSetCounterBeforeMax (forward only)'],
     q, t)

q, t = multi_stages([('cbl', 2000, 100000), ('queue', 2000, 100000), ('cbl_f', 250, 2000), ('queue_f', 100, 1500), ('cq', 5000, 100000)])
prop('C08', 'exploration',
     'ledger oracle over the cbl program classes (every construction/destruction of callbacks and payloads recorded by address; LeakSanitizer confirmation when the heap '
     'does not return to its pre-case size); the fault-enumeration variants (see C09) re-run the same histories with an exception injected at every fault point of sampled operations; '
     'concurrent half (cq harness): the C06 thread programs under the harness-owned scheduler with every copy / move of a payload a scheduling point, so that an argument read by one thread (peekEvent, takeEvent, dispatch) after another thread destroyed it is flagged by the ledger; '
     'non-trivial = a callback was removed while an invocation was running, or a list/queue was destroyed non-empty',
     COMMON_ASSUME, q, t)

q, t = std_stages('queue', 8000, 150000, fuzz_runs=200000)
# queues with Mixins (MixinFilter, user mixins): the queued-dispatch cases of the filter harness, lock-step with the filter-chain model
q['stages'].insert(1, dict(engine='replay', harness='filter'))
t['stages'].insert(1, dict(engine='replay', harness='filter'))
q['stages'].append(dict(engine='rc', harness='filter', procs=8, cases=1500, timeout=900))
t['stages'].append(dict(engine='rc', harness='filter', procs=16, cases=40000, timeout=3600))
prop('C05', 'exploration',
     'rapidcheck-generated single-threaded EventQueue histories (<=80 ops): enqueue (lvalue/temporary), process, processOne, processIf, processUntil (scripted predicates, with and without '
     'arguments), peekEvent, takeEvent(+dispatch), clearEvents, emptyQueue, waitFor(0), DisableQueueNotify scopes, listener changes; listener and predicate scripts enqueue, change listeners and '
     'issue nested consuming calls; 4 prototypes (by value, const string&, move-only unique_ptr, getEvent policy) x 3 threading policies; lock-step queue model; '
     'second harness (filter): queues with Mixins (MixinFilter, counting mixins) - a queued event must go through the same filter chain and reach the same listeners with the same rewritten arguments as a direct dispatch; '
     'non-trivial = a processIf/processUntil declined an event while a listener enqueued one, a slot was reused, and a take/peek happened between partial processings',
     COMMON_ASSUME + ['nested consuming calls inside processIf/processUntil are not generated (the statement does not say whether declined events are visible to them)'],
     q, t)

q, t = std_stages('queue', 8000, 100000)
prop('C13', 'exploration',
     'C05 histories on OrderedQueueList queues with 4 comparators (ascending key, descending key, coarse key/2 with ties between distinct keys, comparator on an argument); model keeps pending '
     'stably sorted by (comparator class, enqueue sequence); non-trivial = a tie between events of different rounds, slot reuse, >=3 events consumed',
     COMMON_ASSUME, q, t)

q, t = std_stages('disp', 2500, 100000, fuzz_runs=150000)
# argument evaluation order is compiler-dependent: the same harness is also built with g++
q['stages'].append(dict(engine='rc', harness='disp', variant='gxx', procs=8, cases=1500, timeout=900))
t['stages'].append(dict(engine='rc', harness='disp', variant='gxx', procs=16, cases=50000, timeout=3600))
# dispatchers with Mixins: the direct-dispatch cases of the filter harness (filters and listeners carry scripts that add and remove listeners and filters)
q['stages'].insert(1, dict(engine='replay', harness='filter'))
t['stages'].insert(1, dict(engine='replay', harness='filter'))
q['stages'].append(dict(engine='rc', harness='filter', procs=8, cases=1500, timeout=900))
t['stages'].append(dict(engine='rc', harness='filter', procs=16, cases=40000, timeout=3600))
prop('C04', 'exploration',
     'rapidcheck-generated EventDispatcher histories over 14 configurations (keys: int incl. INT_MIN/MAX, enum class, std::string incl. "", embedded NUL and non-SSO, user ordered key, user hashed key with '
     'colliding hash; prototypes by value / by const reference / event excluded / getEvent policy (also user getEvent policies taking their arguments by value, in the exclude and the include form, and one that routes to another event than its first argument); a comparable user Callback type with the hasListener / removeListener / hasAnyListener(dispatcher, event, callback) helpers of eventutil.h and several equal callbacks per event; ArgumentPassing auto/include/exclude; unordered_map, std::map, user map) with dispatches whose arguments '
     'are lvalues or temporaries and listeners taking arguments by value (stealing them) or by reference and counting their own calls (the registered object must be the one that runs); oracle = per-key list model + argument summaries + caller lvalues unchanged + listener-internal state; '
     'second harness (filter): dispatchers with Mixins whose filters and listeners run scripts (add / remove listeners and filters, nested dispatch), e.g. a filter registering the first listener of the event being dispatched; the listeners that are attached when the filter chain ends must each run once; '
     'non-trivial = >=2 keys with listeners, a dispatch with a temporary key whose first listener takes its arguments by value, >=2 listeners on that key',
     COMMON_ASSUME + ['key/prototype universe is the 14-row configuration table', 'insert/remove through a handle of another event of the same dispatcher are not generated (documented UB)'],
     q, t)

SCHED_ASSUME = COMMON_ASSUME + [
    'schedules are sequentially consistent interleavings that switch only at Threading-policy operations (mutex, atomic, condition variable) and EVENTPP_VERIF_POINT hooks; weak-memory effects and torn reads are not explored',
    'the condition variable is the harness model of std::condition_variable (lost notifications when nobody waits, optional spurious wake-ups, timeouts fired by the scheduler)',
    'bounded-exhaustive stage: preemption-bounded (K=1 quick, K=2 thorough) over a fixed list of small thread programs; forced switches take the lowest or the highest runnable thread (both are run), time-outs fire only when nothing else can run, no spurious wake-ups; which waiter a notify_one wakes is fixed per program',
]
q, t = std_stages('cq', 10000, 150000)
sched_enum(q, 'cq', 1, 8, 900)
sched_enum(t, 'cq', 2, 16, 5400)
q['stages'].append(tsan_stage(600))
t['stages'].append(tsan_stage(20000))
prop('C06', 'exploration',
     'generated thread programs (2-5 threads x <=5 calls: enqueue, DisableQueueNotify scopes, process, processOne, processIf, processUntil, takeEvent, peekEvent, clearEvents, emptyQueue) on EventQueue '
     '(scheduler mutex and the library SpinLock) and HeterEventQueue, executed under a harness-owned scheduler (random walk, PCT, sticky random; schedule bytes are part of the case), plus every schedule with <=1 (quick) / <=2 (thorough) preemptions of 42 fixed small thread programs (bounded-exhaustive stage); oracle = per-event '
     'ledger (exactly one of dispatched-once / taken-once / destroyed-inside-clearEvents), payload intact (every copy / move of a payload is a scheduling point in new cases), call results, per (producer, consumer) FIFO (an inversion is legitimate only when the consumer\'s own processIf dispatched the newer event and skipped the older one; an inversion behind the put-back of another thread\'s processIf/processUntil is known finding E11, counted and excluded; any other is a violation), no deadlock, '
     'and mutual exclusion of the hook-declared critical sections (no thread arrives inside a section over queueList / freeList / the listener map while another thread is parked inside a section over the same container); '
     'second stage = the same call vocabulary on real threads (std::mutex and the library SpinLock, whose acquire/release orders ThreadSanitizer models; OS schedule) under ThreadSanitizer with the documented unlocked reads suppressed, exactly-once delivery counters; '
     'non-trivial = a producer call overlapped a consumer call, two consumer calls overlapped, and a preemption happened inside a critical section or at an unlocked pre-check',
     SCHED_ASSUME + ['the real-thread ThreadSanitizer stage is probabilistic (the OS owns the schedule); its reports are conclusive, its silence is not'], q, t,
     technique='property-based testing of generated thread programs x generated schedules under a controlled cooperative scheduler, per-event history oracle; preemption-bounded exhaustive schedule enumeration of fixed small programs; generated real-thread programs under ThreadSanitizer')

q, t = std_stages('cq', 10000, 200000)
sched_enum(q, 'cq', 1, 8, 900)
sched_enum(t, 'cq', 2, 16, 5400)
prop('C07', 'exploration',
     'generated programs of waiter threads (wait / waitFor then drain), enqueuers (optionally inside nested DisableQueueNotify scopes) and processors (process, processOne, processIf, processUntil) under the harness-owned scheduler, plus every schedule with <=1 (quick) / <=2 (thorough) preemptions of 38 fixed small programs (bounded-exhaustive stage; DisableQueueNotify scopes may be left by an exception); '
     'oracle = at every quiescent state (no runnable thread) a parked waiter with pending events and no DisableQueueNotify alive is a lost wake-up; otherwise waiters are released by sentinel enqueues; '
     'every returned wait must have had a step with a possibly non-empty queue and no certainly-alive DisableQueueNotify; waitFor false only after its timeout fired; '
     'non-trivial = a wait was in progress when an enqueue or the destruction of a DisableQueueNotify completed',
     SCHED_ASSUME + ['liveness is decided as the safety property "no quiescent state with a parked waiter, pending events and notification enabled" (sound because the harness owns the scheduler and woken waiters drain)'],
     q, t,
     technique='property-based testing of generated thread programs x generated schedules under a controlled cooperative scheduler, quiescent-state oracle for lost wake-ups; preemption-bounded exhaustive schedule enumeration of fixed small programs')

q, t = multi_stages([('queue', 1500, 60000), ('cq', 8000, 150000)])
sched_enum(q, 'cq', 1, 8, 900, at=2)
sched_enum(t, 'cq', 2, 16, 5400, at=2)
prop('C11', 'exploration',
     'single-threaded half: listeners and predicates of process/processOne/processIf/processUntil call emptyQueue()/waitFor(0) (queue harness); concurrent half: observer threads calling emptyQueue / waitFor while '
     'other threads enqueue, process, processOne, takeEvent, clearEvents under the harness-owned scheduler, plus every schedule with <=1 (quick) / <=2 (thorough) preemptions of 27 fixed small programs (bounded-exhaustive stage); processIf / processUntil are generated too, with emptyQueue() observations that overlap such a call not judged; oracle = an observation of "empty" over steps [t0,t1] requires every event whose enqueue returned before t0 '
     'to have had its listener return by t1, or to have been taken/cleared by a call begun before t1; non-trivial = an observation overlapped a processing call that was dispatching',
     SCHED_ASSUME, q, t,
     technique='property-based testing: lock-step queue model (single thread) + generated thread programs x schedules under a controlled scheduler with an interval oracle; preemption-bounded exhaustive schedule enumeration of fixed small programs')

q, t = std_stages('remover', 8000, 150000)
prop('C15', 'exploration',
     'rapidcheck-generated histories over a pool of 3 ScopedRemovers and 2 targets (CallbackList, EventDispatcher, EventQueue, or an EventDispatcher keyed by a user type): add through a remover (append/prepend/insert), add directly, remove through a remover '
     '(own, foreign, direct, stale handles), remove directly, reset, setCallbackList/setDispatcher, move construction, move assignment into empty and non-empty removers and from itself, swap, destruction, invocation; '
     'oracle = ownership model (listener -> responsible remover | none | limbo after a move assignment) compared with the enumerated content after every op and after all removers are gone; '
     'non-trivial = a move assignment between two removers that both own listeners',
     COMMON_ASSUME + ['what the destination of a move assignment was responsible for may be detached at once or stay attached until the last remover involved is gone; the model adopts what it observes, monotonically',
                      'remove through a remover is not generated for a listener in that limbo state or for a handle attached to a different target'],
     q, t)

q, t = std_stages('remover', 10000, 150000)
prop('C16', 'exploration',
     'rapidcheck-generated trigger histories on CallbackList, EventDispatcher, EventQueue (direct and queued dispatch), HeterCallbackList and HeterEventDispatcher with listeners added through counterRemover '
     '(trigger counts INT_MIN,-5,-1,0,1,2,3,7,INT_MAX and random) and conditionalRemover (condition = bit sequence, with-argument, no-argument, callable-both-ways and int-returning forms; the last must be called with the arguments of the trigger), plain listeners, removal from outside, and listener scripts '
     'that re-trigger the same event re-entrantly; oracle = per wrapped listener trigger model on top of the nested-invocation list model; non-trivial = (count <=0 or >=2 with a re-entrant trigger, or a condition '
     'turning true on a nested trigger) with other listeners present',
     COMMON_ASSUME, q, t)

q, t = std_stages('heter', 3000, 150000, fuzz_runs=150000)
q['stages'].append(dict(engine='rc', harness='heter', variant='gxx', procs=8, cases=1500, timeout=900))
t['stages'].append(dict(engine='rc', harness='heter', variant='gxx', procs=16, cases=50000, timeout=3600))
prop('C14', 'exploration',
     'rapidcheck-generated histories on HeterEventQueue (which contains the HeterEventDispatcher and HeterCallbackList paths) over four prototype lists chosen so that first-match order matters and payloads differ in '
     'size and triviality: <void(), void(int), void(const string&), void(const Big&)>, <void(long), void(int), void(Tracked,int)> (an int argument matches the first, void(int) is shadowed), a std::string-keyed '
     'include-event list, and <void(string&), void(const string&), void(int)> (non-const lvalues select the first, const lvalues and temporaries the second); callables and arguments of every shape (exact, convertible, generic, shadowed), process/processOne/processIf with a predicate of each prototype and one callable with two; listeners that enqueue a further event each time they run (bounded), so that events arrive while a processing call runs; '
     'expected prototype indices are a hand-written table; oracle = per-prototype list models, argument summaries, exactly-once FIFO, processIf examines only its prototypes and leaves the rest in place; '
     'built with clang++ and g++; non-trivial = a processIf with an event of a foreign prototype pending, on a queue where a slot was recycled across prototypes',
     COMMON_ASSUME + ['prototype lists are the four rows of the table', 'known finding E12: an argument kind that selects a non-const-reference prototype is dispatched directly but not enqueued (counted and excluded; the replay tier shows it)', 'which of the matching prototypes a multi-prototype predicate examines is left open (only "never a foreign one, never twice, dispatch iff true")'],
     q, t)

q, t = std_stages('anydata', 12000, 300000, enum=True)
# which constructor a braced initialisation selects differs between g++ and clang++ (CWG 2137): the table is also run as built by g++
q['stages'].append(dict(engine='rc', harness='anydata', variant='gxx', procs=8, cases=3000, timeout=900))
t['stages'].append(dict(engine='rc', harness='anydata', variant='gxx', procs=16, cases=50000, timeout=3600))
prop('C17', 'exploration',
     'type table P<N,kind>: N in {1,2,4,7,8,15,16,17,23,24,25,31,32,33,63,64,65,100,256} x kind in {trivial bytes, ledgered copy+move, ledgered move-only, shared_ptr holder, trivial copy with user-provided move, initializer_list constructor over itself} x AnyData capacities {1 (=16), 24, 32, 64}, '
     'so every capacity has N = M-1, M, M+1. Bounded-exhaustive: every (N, kind, capacity, construction form) with a fixed move/queue script (1368 cases); random: generated chains of moves, reads and EventQueue round trips with '
     'slots recycled between payloads of very different size. Built with clang++ and with g++ (they differ in which constructor a braced initialisation selects). Oracle: value equality, stable address, conversions, isType true exactly for the stored type, <=1 move and no copy of the held object per AnyData move (the counted copyable type has a potentially-throwing move constructor, the shared_ptr holder a noexcept one), no copy when a temporary is enqueued, move-only never copied, use_count unchanged by a move, ledger exactly-once, ASan/UBSan; '
     'non-trivial = size within +-1 of the capacity or beyond it, a non-trivial kind, and >=2 moves or a queue round trip',
     COMMON_ASSUME + ['over-aligned types (alignment > 8) are outside the table', 'takeEvent/peekEvent are not generated: AnyData is not assignable, so QueuedEvent cannot be taken by value'],
     q, t)

q, t = std_stages('anyid', 8000, 100000, enum=True)
prop('C18', 'exploration',
     'AnyId<Digester, Storage> for Digester in {std::hash, hash mod 4 (forced collisions), constant} x Storage in {EmptyAnyStorage, opaque storage (neither == nor <), tagged value storage (both)}, plus std::hash with a comparable storage that forgets the type of the value (equal stored values with different digests); value pool of 26 values over '
     'int/long/unsigned/char/bool/enum/std::string/user struct chosen to collide (int 5, long 5, unsigned 5, enum 5; equal strings; "") and to spread digests over the whole size_t range (0, 6e18, 12e18, -1). Bounded-exhaustive: all 26^2 pairs and 26^3 triples per configuration '
     '(equivalence, strict weak order, incomparability classes == equality classes, equal ids hash equally, collisions stay distinct with value storage / ids equal iff digests equal without) and dispatch through std::map and '
     'std::unordered_map dispatchers against a linear-search model; random: generated law and dispatch cases; non-trivial = the case contains a digest collision between different values',
     COMMON_ASSUME + ['the value universe is the 24-value pool over 8 types'],
     q, t)

q, t = std_stages('filter', 3000, 150000)
q['stages'].append(dict(engine='rc', harness='filter', variant='clang4', procs=8, cases=1200, timeout=900))
t['stages'].append(dict(engine='rc', harness='filter', variant='clang4', procs=16, cases=50000, timeout=3600))
prop('C12', 'exploration',
     'rapidcheck-generated histories of appendFilter/removeFilter (also from inside filters and listeners), listener changes and dispatches, direct and queued, over 14 subjects: EventDispatcher by-value prototype, '
     'EventQueue with reference prototype (only the second argument rewritable), MixinFilter followed / preceded by a counting user mixin (once with a variadic template hook, once with an ordinary member hook taking non-const references), MixinFilter followed by a user mixin without any interceptor (dispatcher and queue; the same mixin in front of MixinFilter is known finding E15 and only replayed), HeterEventDispatcher and HeterEventQueue with MixinHeterFilter, a canContinueInvoking '
     'policy on void(Ev&), a canContinueInvoking policy and conditionalFunctor conditions taking movable arguments by value, and argumentAdapter down-casts (Derived& from Base&, shared_ptr<Derived> from shared_ptr<Base>); listeners plain, conditionalFunctor-wrapped and argumentAdapter-wrapped (arithmetic conversions); '
     'during a direct dispatch filters with an odd id also overwrite the own event object of the caller (the lvalue handed to dispatch), which must not re-route the dispatch; oracle = filter-chain model (insertion order, shared mutable arguments, first false stops filters and listeners of that dispatch only, removed filters never run) in lock-step with argument comparison at every filter, '
     'condition and listener; non-trivial = (>=2 filters with a rewriting filter followed by a block) or a stop by canContinueInvoking or an adapter-wrapped listener',
     COMMON_ASSUME + ['subjects are the 14 rows of the configuration table', 'routing uses the event computed before the filters run (rewriting the key argument does not re-route): filters only use the exclude-event form',
                      'HeterEventQueue with MixinHeterFilter does not compile for queued dispatch (stored arguments are const): heterogeneous filters are exercised on direct dispatch only'],
     q, t)

q, t = std_stages('cl', 10000, 150000)
sched_enum(q, 'cl', 1, 8, 900)
sched_enum(t, 'cl', 2, 16, 5400)
q['stages'].append(tsan_stage(600))
t['stages'].append(tsan_stage(20000))
prop('C03', 'exploration',
     'generated thread programs (0-4 initial callbacks, 2-5 threads x <=4 calls: append, prepend, insert(before h), remove(h), ownsHandle(h), empty, forEach, invoke) on CallbackList (scheduler mutex and the library SpinLock) and on '
     'EventDispatcher keyed by a user type whose comparison/hash/copy are scheduling points (std::map and std::unordered_map), and on HeterCallbackList (first use of a prototype by two threads), executed under the harness-owned scheduler (random walk, PCT, sticky; schedule bytes are part of the case), plus every schedule with <=1 (quick) / <=2 (thorough) preemptions of 77 fixed two- and three-thread programs on each subject (bounded-exhaustive stage); '
     'oracle = Wing-Gong linearizability search over the add/remove/query calls (program order + real-time order of non-overlapping calls, every return value, ending in the observed final order), traversal rules (no callback twice, '
     'everything that stayed is visited, only callbacks that could be in the list, survivors in list order), deep probe after join (ownsHandle of every handle, remove survivors one by one re-enumerating), ledger, mutual exclusion of the hook-declared critical sections over the one list / the one listener map; '
     'second stage = append/remove/dispatch on real threads (std::mutex and the library SpinLock, whose acquire/release orders ThreadSanitizer models; OS schedule) under ThreadSanitizer with the documented unlocked reads suppressed; '
     'non-trivial = two threads issued overlapping calls on one list, one of them a structural change, with a preemption inside a critical section or at an unlocked access',
     SCHED_ASSUME + ['handles are shared through a harness table filled when an add returns; a handle of another event is never passed (documented UB)'],
     q, t,
     technique='property-based testing of generated thread programs x generated schedules under a controlled cooperative scheduler, linearizability (Wing-Gong) oracle; preemption-bounded exhaustive schedule enumeration of fixed small programs; generated real-thread programs under ThreadSanitizer')

q, t = multi_stages([('cbl_f', 200, 3000), ('queue_f', 200, 2000), ('remover_f', 200, 3000), ('heter_f', 200, 3000)])
prop('C09', 'fault_enumeration',
     'generated histories (the C02/C10 program classes) executed once fault-free while counting the fault points of every top-level operation (user code: callback entry, callback copy, payload copy and move, heterogeneous enqueue, adds at the counter wrap, copy / move / assignment of a user event-key type in the remover harness; memory allocation through a '
     'replaced operator new), then re-executed from scratch once per (operation i, position k) for every k up to the count (<=48, <=8 operations and <=120 faulted executions per program), the k-th fault point throwing; '
     'a second fault at a later operation in a third of the executions. Oracle: exactly the injected exception reaches the caller (terminate = failure), strong guarantee for listener management / assignment / copies '
     '(model snapshot restored and compared by enumeration at once), invocations leave what the callbacks did, the history continues in lock-step with the model, ledger empty and LeakSanitizer clean at the end; '
     'pure look-ups (hasAnyListener, on a dispatcher keyed by a user type) are faulted operations whose key comparisons throw; '
     'non-trivial = a fault at position k>1 of an operation on a non-empty container',
     COMMON_ASSUME + ['fault points inside callback scripts (nested library calls) are not injected; only one fault is in flight at a time',
                      'exhaustive over k only up to the stated caps'],
     q, t,
     technique='property-based testing with exhaustive single-fault injection per generated (state, operation) pair: exceptions from user code and operator new, model-based oracle',
     level_text='Fault enumeration: for generated (state, operation) pairs every fault position k is injected in turn and the outcome compared with the reference model; held = held for every injected position of every generated pair.')

q = dict(stages=[dict(engine='replay', harness='config'), dict(engine='rc', harness='config', procs=8, cases=1500, timeout=900),
                 dict(engine='config-matrix', harness='config')])
t = dict(stages=[dict(engine='replay', harness='config'), dict(engine='rc', harness='config', procs=16, cases=40000, timeout=3600),
                 dict(engine='config-matrix', harness='config')])
prop('C20', 'exploration',
     'rapidcheck-generated flat programs (listener changes, dispatch and enqueue with lvalue and temporary keys/arguments, process/processOne/processIf/processUntil/takeEvent/peekEvent/emptyQueue/waitFor(0), copy- and move-construction of the '
     'queue over pre-filled placement storage followed by an immediate emptyQueue/waitFor, listeners that append a further listener each time they run) interpreted for 8 policy instantiations (Threading Multiple/SpinLock/Single x Map auto/std::map/unordered_map/user map x Callback '
     'std::function/custom functor x ArgumentPassing auto/include/exclude x key int/std::string) and compared with a built-in reference model; the first programs of the run are dumped and re-run by stand-alone builds of the '
     'same C++11-clean source with g++ and clang++, -O0 and -O2, -std=c++11..20 (quick: 4 builds, thorough: 16) with two storage fill patterns; in every build and for every fill pattern an object sweep first constructs each class of the library (the lock itself, CallbackList, EventDispatcher, EventQueue, the three heterogeneous classes, ScopedRemover for four targets, CounterRemover; default / from target / copy / move) over pre-filled storage under the three threading policies and compares a fixed probe with the reference, an endless spin of a SpinLock being detected through the hook in its loop; non-trivial = a temporary key/argument or an object constructed over non-zero storage and queried before any write',
     COMMON_ASSUME + ['"any conforming compiler" is g++ 12 and clang++ 14; sanitizer builds are not part of the matrix (the generating build is clang++ ASan/UBSan)',
                      'operations a policy cannot compile (waitFor with SingleThreading or SpinLock + std::condition_variable) are skipped for that instantiation in both model and implementation'],
     q, t,
     technique='differential + model-based property testing: generated programs x policy instantiations x compiler/optimisation/standard builds, all compared with one reference model')


_ALL = ['C%02d' % i for i in range(1, 21)]
for _p in _ALL:
    if _p not in PROPS:
        NOT_APPLICABLE[_p] = 'check designed in DESIGN.md section 3 but not yet built/validated in this round; no claim is made'
