#!/usr/bin/env python3-vt
import json, jsonschema, glob, os, sys
V = os.path.dirname(os.path.dirname(os.path.abspath(__file__)))
m = json.load(open(V + '/MANIFEST.json'))
jsonschema.validate(m, json.load(open('/root/.vp/MANIFEST.schema.json')))
print('MANIFEST ok: %d checks' % len(m['checks']))
s = json.load(open('/root/.vp/EVIDENCE.schema.json'))
bad = 0
for c in m['checks']:
    f = os.path.join(V, c['evidence_file'])
    if not os.path.exists(f):
        print('missing', f); bad += 1; continue
    try:
        jsonschema.validate(json.load(open(f)), s)
    except Exception as e:
        print('INVALID', f, str(e)[:300]); bad += 1
print('evidence: %d bad' % bad)
sys.exit(1 if bad else 0)
