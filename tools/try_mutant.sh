#!/bin/bash
# usage: tools/try_mutant.sh <patch-file-or-'sed:FILE:EXPR'> PROP [PROP...]   — apply to /repo, run quick checks, restore
M=$1; shift
cd /repo || exit 2
if [[ "$M" == sed:* ]]; then
  IFS=: read -r _ file expr <<< "$M"
  sed -i "$expr" "$file" || exit 2
else
  git apply "$M" || { echo "patch does not apply"; exit 2; }
fi
git diff --stat | tail -1
cd /verif
for p in "$@"; do
  ./check $p --tier ${TIER:-quick} 2>&1 | grep -E "^(OK|VIOLATION|BROKEN|KNOWN|  sig)" | head -4
done
git -C /repo checkout -- . 
