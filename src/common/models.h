// Reference models shared by the dispatcher / queue / remover harnesses (DESIGN 2.7).
// Value-semantic, written from the property statements; no eventpp types.
#ifndef VERIF_MODELS_H
#define VERIF_MODELS_H

#include <algorithm>
#include <map>
#include <string>
#include <vector>

namespace vf {

// An ordered list of node ids. A node id is also the index of the handle that names it.
struct ListModel
{
	std::vector<int> nodes;

	bool has(int n) const { return n >= 0 && std::find(nodes.begin(), nodes.end(), n) != nodes.end(); }
	void append(int n) { nodes.push_back(n); }
	void prepend(int n) { nodes.insert(nodes.begin(), n); }
	// insert before `before` if it is in this list, else at the back; returns true if placed before
	bool insertBefore(int n, int before) {
		auto it = std::find(nodes.begin(), nodes.end(), before);
		if(before >= 0 && it != nodes.end()) { nodes.insert(it, n); return true; }
		nodes.push_back(n);
		return false;
	}
	bool remove(int n) {
		auto it = std::find(nodes.begin(), nodes.end(), n);
		if(n < 0 || it == nodes.end()) return false;
		nodes.erase(it);
		return true;
	}
	bool empty() const { return nodes.empty(); }
};

// One invocation of a list: snapshot at start; a node is due iff it is still in the list at its turn.
struct InvokeFrame
{
	std::vector<int> snap;
	size_t cursor = 0;
	int calls = 0;
	int currentNode = -1;

	void begin(const ListModel & l) { snap = l.nodes; cursor = 0; calls = 0; currentNode = -1; }
	// the node that must be called next, or -1
	int due(const ListModel & cur) {
		while(cursor < snap.size() && ! cur.has(snap[cursor])) ++cursor;
		return cursor < snap.size() ? snap[cursor] : -1;
	}
	void advance(int node) { ++cursor; ++calls; currentNode = node; }
};

} // namespace vf

#endif
