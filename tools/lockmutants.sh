#!/bin/bash
# usage: tools/lockmutants.sh [seed]   -- applies every lock-removal change in turn and runs the concurrent checks
seed=${1:-1}
cd /verif
for m in $(tools/lockmutants.py --list); do
  case $m in cbl_*|disp_*) props="C03";; *) props="C06";; esac
  tools/lockmutants.py $m
  for p in $props; do
    r=$(VERIF_SEED=$seed ./check $p 2>&1 | grep -E "^(OK|VIOLATION|NOTE)" | head -3 | cut -c1-150 | tr '\n' ' ')
    echo "$m $p seed=$seed: $r"
  done
  git -C /repo checkout -- .
done
