// Fault-enumeration mode (C09, DESIGN 2.6): a program is first executed fault-free while counting the fault points of every
// top-level operation, then re-executed from scratch once per (operation i, position k) with the injector armed so that the
// k-th fault point of operation i throws; the history continues after the fault (optionally with a second fault later).
#ifndef VERIF_FAULTMODE_H
#define VERIF_FAULTMODE_H

#include "harness.h"
#include "ledger.h"
#include "leak.h"

#include <map>
#include <new>
#include <vector>

namespace vf {

struct FaultPlan
{
	bool counting = false;
	std::vector<long> counts;     // counting run: fault points seen in top-level op i
	std::map<int, int> at;        // top-level op index -> k
	int fired = 0;                // faults that actually fired in this execution
	int firedKind = 0;
	bool firedAtKGreater1OnNonEmpty = false;
};

// RAII used by the interpreters around one top-level operation
struct FaultArm
{
	FaultPlan * plan;
	int index;
	long seenBefore;
	bool armed = false;
	FaultArm(FaultPlan * p, int i) : plan(p), index(i), seenBefore(faults().seen) {
		if(! plan) return;
		if(plan->counting) { faults().allocEnabled = true; return; }
		auto it = plan->at.find(i);
		if(it != plan->at.end()) { faults().arm(it->second); faults().allocEnabled = true; armed = true; }
	}
	~FaultArm() {
		if(! plan) return;
		faults().allocEnabled = false;
		if(plan->counting) {
			if((size_t)index >= plan->counts.size()) plan->counts.resize((size_t)index + 1, 0);
			plan->counts[(size_t)index] = faults().seen - seenBefore;
		}
		faults().disarm();
	}
};

// exec(program, plan, verdict): one complete execution with a fresh interpreter
template <typename Exec>
Verdict faultOrchestrate(const Program & p, Exec exec, int maxExecutions = 120)
{
	Verdict v;
	FaultPlan count;
	count.counting = true;
	exec(p, count, v);
	if(! v.ok) return v;
	v.classes.clear();
	std::vector<int> candidates;
	for(size_t i = 0; i < count.counts.size(); ++i) if(count.counts[i] > 0) candidates.push_back((int)i);
	ChoiceSource ch(p, fnv1a(toText(p)) ^ 0x9e3779b97f4a7c15ull);
	long executions = 0;
	bool nontrivial = false, second = false, alloc = false, user = false;
	// targets: every candidate if affordable, else a generated subset
	std::vector<int> targets = candidates;
	while(targets.size() > 8) targets.erase(targets.begin() + (long)ch.below((uint32_t)targets.size()));
	for(int t : targets) {
		const long n = std::min<long>(count.counts[(size_t)t], 48);
		for(long k = 1; k <= n && executions < maxExecutions; ++k) {
			FaultPlan plan;
			plan.at[t] = (int)k;
			// "in succession": sometimes a second fault at a later operation
			if(ch.below(3) == 0) {
				std::vector<int> later;
				for(int c : candidates) if(c > t) later.push_back(c);
				if(! later.empty()) {
					int j = later[ch.below((uint32_t)later.size())];
					plan.at[j] = 1 + (int)ch.below((uint32_t)std::min<long>(count.counts[(size_t)j], 48));
					second = true;
				}
			}
			Verdict one;
			exec(p, plan, one);
			++executions;
			if(getenv("VERIF_DEBUG_LEAK") && one.ok && confirmLeak()) {
				fprintf(stderr, "DEBUG leak in an execution judged ok: target op %d k %ld fired=%d kind=%d\n%s\n", t, k, plan.fired, plan.firedKind, toText(p).c_str());
			}
			if(plan.firedAtKGreater1OnNonEmpty) nontrivial = true;
			if(plan.firedKind == 6) alloc = true; else if(plan.firedKind) user = true;
			if(! one.ok) {
				one.subEvaluations = executions;
				one.msg = "fault at the " + std::to_string(k) + "-th fault point of top-level operation #" + std::to_string(t) + ": " + one.msg;
				return one;
			}
		}
	}
	v.subEvaluations = executions > 0 ? executions : 1;
	v.nontrivial = nontrivial;
	if(second) v.classes.push_back("two_faults_in_succession");
	if(alloc) v.classes.push_back("allocation_failure");
	if(user) v.classes.push_back("user_code_throw");
	if(nontrivial) v.classes.push_back("fault_after_partial_work_on_nonempty_container");
	return v;
}

} // namespace vf

#endif
