// AnyData cases for one capacity VF_M (included by h_anydata_m*.cpp): every size x kind of the type table.
#include <eventpp/utilities/anydata.h>
#include <eventpp/eventqueue.h>

#include "common/harness.h"
#include "common/ledger.h"

#include <cstring>
#include <initializer_list>
#include <memory>
#include <string>

namespace vfad {
using namespace vf;

struct Counters { long copies = 0, moves = 0; };
inline Counters & counters() { static Counters c; return c; }

struct CaseResult { bool ok = true; std::string rule, msg; void fail(const char * r, const std::string & m) { if(ok) { ok = false; rule = r; msg = m; } } };

enum { A_MOVE = 1, A_READ, A_ISTYPE, A_QUEUE, A_REBUILD, A_THROW };

// fault for kind 1: the n-th copy / move construction of a held object throws (0 = never)
struct Boom { };
inline int & throwCountdown() { static int n = 0; return n; }
inline void maybeThrow() { int & n = throwCountdown(); if(n > 0 && --n == 0) throw Boom(); }

inline unsigned char patt(int seed, int i) { return (unsigned char)((seed * 131 + i * 7 + 3) & 0xff); }

template <int N, int K> struct P;

// kind 0: trivial bytes
template <int N> struct P<N, 0>
{
	unsigned char b[N];
	explicit P(int seed) { for(int i = 0; i < N; ++i) b[i] = patt(seed, i); }
	bool equals(int seed) const { for(int i = 0; i < N; ++i) if(b[i] != patt(seed, i)) return false; return true; }
	static const bool copyable = true;
};
// kind 1: non-trivial, copy + move, every construction / destruction recorded by address. The move constructor is
// deliberately not noexcept (kind 3 is the copyable type with a noexcept move): "moving an AnyData moves the held
// object" must not depend on that
template <int N> struct P<N, 1>
{
	unsigned char b[N];
	enum { lid = kAuxBase + N * 10 + 1 };
	explicit P(int seed) { for(int i = 0; i < N; ++i) b[i] = patt(seed, i); ledger().onCtor(this, lid, 0); }
	P(const P & o) { maybeThrow(); memcpy(b, o.b, N); ++counters().copies; ledger().onUse(&o, lid); ledger().onCtor(this, lid, 1); }
	P(P && o) { maybeThrow(); memcpy(b, o.b, N); ++counters().moves; ledger().onUse(&o, lid); ledger().onCtor(this, lid, 2); }
	~P() { ledger().onDtor(this, lid); }
	bool equals(int seed) const { ledger().onUse(this, lid); for(int i = 0; i < N; ++i) if(b[i] != patt(seed, i)) return false; return true; }
	static const bool copyable = true;
};
// kind 2: move-only
template <int N> struct P<N, 2>
{
	unsigned char b[N];
	enum { lid = kAuxBase + N * 10 + 2 };
	explicit P(int seed) { for(int i = 0; i < N; ++i) b[i] = patt(seed, i); ledger().onCtor(this, lid, 0); }
	P(const P &) = delete;
	P(P && o) noexcept { memcpy(b, o.b, N); ++counters().moves; ledger().onUse(&o, lid); ledger().onCtor(this, lid, 2); }
	~P() { ledger().onDtor(this, lid); }
	bool equals(int seed) const { ledger().onUse(this, lid); for(int i = 0; i < N; ++i) if(b[i] != patt(seed, i)) return false; return true; }
	static const bool copyable = false;
};
// kind 3: shared ownership (use_count observable); sizeof is N rounded up to the pointer alignment
template <int N> struct P<N, 3>
{
	std::shared_ptr<int> sp;
	unsigned char b[N > 16 ? N - 16 : 1];
	explicit P(int seed) : sp(std::make_shared<int>(seed)) { for(int i = 0; i < (int)sizeof(b); ++i) b[i] = patt(seed, i); }
	bool equals(int seed) const { if(! sp || *sp != seed) return false; for(int i = 0; i < (int)sizeof(b); ++i) if(b[i] != patt(seed, i)) return false; return true; }
	static const bool copyable = true;
};

// kind 4: trivially copyable as far as the copy constructor goes, but with a user-provided move constructor (a handle that
// records its moves): moving an AnyData that holds it inline must run that move constructor, a bytewise relocation is not a
// move (a heap-held object changes hands by pointer and is not moved itself)
template <int N> struct P<N, 4>
{
	unsigned char b[N];
	explicit P(int seed) { for(int i = 0; i < N; ++i) b[i] = patt(seed, i); }
	P(const P &) = default;
	P(P && o) noexcept { memcpy(b, o.b, N); ++counters().moves; }
	bool equals(int seed) const { for(int i = 0; i < N; ++i) if(b[i] != patt(seed, i)) return false; return true; }
	static const bool copyable = true;
};

// kind 5: a type with an initializer_list constructor over itself (a tree / variant-like value): building the held object
// from a value of the same type must copy or move it, not wrap it in a one-element list
template <int N> struct P<N, 5>
{
	unsigned char b[N];
	explicit P(int seed) { for(int i = 0; i < N; ++i) b[i] = patt(seed, i); }
	P(std::initializer_list<P> children) { (void)children; memset(b, 0xee, N); b[0] = 0x11; }
	bool equals(int seed) const { for(int i = 0; i < N; ++i) if(b[i] != patt(seed, i)) return false; return true; }
	static const bool copyable = true;
};

template <typename T, bool Copyable> struct Make;
template <typename T> struct Make<T, true>
{
	template <typename AD> static AD * build(void * where, int seed, int how, std::shared_ptr<T> & keep) {
		if(how % 3 == 0) return new (where) AD(T(seed));                       // from a temporary (move)
		keep.reset(new T(seed));
		if(how % 3 == 1) return new (where) AD(*keep);                          // from an lvalue (copy)
		return new (where) AD(static_cast<const T &>(*keep));                    // from a const lvalue (copy)
	}
};
template <typename T> struct Make<T, false>
{
	template <typename AD> static AD * build(void * where, int seed, int how, std::shared_ptr<T> & keep) {
		if(how & 1) return new (where) AD(T(seed));
		keep.reset(new T(seed));
		return new (where) AD(std::move(*keep));
	}
};

template <typename T> long useCount(const T &) { return -1; }
template <int N> long useCount(const P<N, 3> & p) { return p.sp.use_count(); }

template <int N, int K, int M>
CaseResult runCase(const Program & prog)
{
	using T = P<N, K>;
	using AD = eventpp::AnyData<M>;
	using Other1 = P<N, (K == 0 ? 1 : 0)>;            // same size, different kind
	using Other2 = P<(N == 256 ? 255 : N + 1), K>;     // different size, same kind
	using Partner = P<(N <= 32 ? 100 : 4), (K >= 3 ? 1 : K)>; // a payload of very different size in the same queue
	CaseResult r;
	const int seed = prog.params.size() > 3 ? prog.params[3] : 1;
	const size_t cap = sizeof(AD) - sizeof(void *);
	counters() = Counters();
	{
		alignas(16) unsigned char store[8][sizeof(AD)];
		memset(store, 0xaa, sizeof store);
		AD * cur = nullptr;
		std::vector<AD *> shells;
		std::shared_ptr<T> keep;
		cur = Make<T, T::copyable>::template build<AD>(store[0], seed, prog.params.size() > 4 ? prog.params[4] : 0, keep);
		shells.push_back(cur);
		size_t usedStores = 1;
		const long copiesAfterBuild = counters().copies;
		auto check = [&](const AD & a, const char * where) {
			const T & v = a.template get<T>();
			if(! v.equals(seed)) r.fail("anydata.value", std::string(where) + ": get<T>() does not equal the stored value");
			const void * addr = a.getAddress();
			if((const void *)&v != addr || addr != a.getAddress()) r.fail("anydata.address", std::string(where) + ": the address of the held object is not stable");
			T & ref = a;
			T * ptr = a;
			if(&ref != &v || ptr != &v) r.fail("anydata.conversion", std::string(where) + ": conversion to reference / pointer yields a different object");
			const unsigned char * lo = reinterpret_cast<const unsigned char *>(&a);
			const bool inside = (const unsigned char *)addr >= lo && (const unsigned char *)addr < lo + sizeof(AD);
			if(inside && sizeof(T) > cap) r.fail("anydata.inline.overflow", std::string(where) + ": an object larger than the capacity is stored inline");
			if(! a.template isType<T>()) r.fail("anydata.istype.self", std::string(where) + ": isType<T>() is false for the stored type");
			if(a.template isType<Other1>() || a.template isType<Other2>() || a.template isType<int>() || a.template isType<eventpp::anydata_internal_::LargeData>() || a.template isType<Partner>())
				r.fail("anydata.istype.other", std::string(where) + ": isType<U>() is true for a type that is not stored");
		};
		check(*cur, "after construction");
		if(K == 3) {
			long expect = keep ? 2 : 1;
			if(useCount(cur->template get<T>()) != expect) r.fail("anydata.shared.count", "use_count after construction is " + std::to_string(useCount(cur->template get<T>())) + ", expected " + std::to_string(expect));
		}
		for(const Op & op : prog.ops) {
			if(! r.ok) break;
			switch(op.kind) {
			case A_MOVE: {
				if(usedStores >= 8) break;
				const long movesBefore = counters().moves, copiesBefore = counters().copies;
				const long useBefore = useCount(cur->template get<T>());
				AD * next = new (store[usedStores++]) AD(std::move(*cur));
				shells.push_back(next);
				cur = next;
				if(counters().copies != copiesBefore) r.fail("anydata.move.copied", "moving an AnyData copied the held object instead of moving it");
				if(K == 4 && sizeof(T) <= cap && counters().moves - movesBefore != 1) r.fail("anydata.move.notmoved", "moving an AnyData did not run the held object's move constructor (" + std::to_string(counters().moves - movesBefore) + " moves counted): the object was relocated bytewise or copied");
				if(K == 3 && useCount(cur->template get<T>()) != useBefore) r.fail("anydata.move.shared", "moving an AnyData changed the use_count of the held shared pointer from " + std::to_string(useBefore) + " to " + std::to_string(useCount(cur->template get<T>())) + " (the held object was copied)");
				if(counters().moves - movesBefore > 1) r.fail("anydata.move.count", "one AnyData move performed " + std::to_string(counters().moves - movesBefore) + " moves of the held object");
				check(*cur, "after move");
				break;
			}
			case A_READ: check(*cur, "read"); break;
			case A_ISTYPE: check(*cur, "isType"); break;
			case A_QUEUE: {
				using Q = eventpp::EventQueue<int, void (int, const AD &)>;
				Q q;
				int seen = 0;
				q.appendListener(3, [&](int, const AD & d) { ++seen; check(d, "in listener"); });
				q.appendListener(4, [&](int, const AD & d) {
					++seen;
					if(! d.template isType<Partner>() || ! d.template get<Partner>().equals(seed + 1)) r.fail("anydata.queue.partner", "partner payload damaged in the queue");
				});
				const int rounds = 1 + (op.a & 1);
				for(int round = 0; round < rounds && r.ok; ++round) {
					// slots are recycled across rounds: T, then a payload of a very different size, then T again
					const long copiesBefore = counters().copies;
					q.enqueue(3, T(seed));
					if(counters().copies != copiesBefore) r.fail("anydata.queue.copied", "enqueuing a temporary copied the held object on its way into the queue (the AnyData inside the queued event must be moved)");
					q.enqueue(4, Partner(seed + 1));
					// (takeEvent needs a move-assignable QueuedEvent; AnyData is not assignable, so only process/processOne apply)
					if(op.b & 1) { while(q.processOne()) {} }
					else q.process();
				}
				if(r.ok && seen != 2 * rounds) r.fail("anydata.queue.count", "listeners ran " + std::to_string(seen) + " times for " + std::to_string(2 * rounds) + " events");
				break;
			}
			case A_THROW: {
				// the copy / move construction of the held object throws (kind 1 only; the other kinds never throw): while an AnyData
				// is built from a value (op.b odd) or while an AnyData is moved (op.b even). An AnyData whose construction failed
				// holds nothing: no destructor may run on storage that never held an object, and nothing may leak.
				alignas(16) unsigned char tmp[2][sizeof(AD)];
				memset(tmp, 0x5c, sizeof tmp);
				std::shared_ptr<T> k2;
				AD * a = nullptr;
				throwCountdown() = (op.b & 1) ? 1 : 0;
				try { a = Make<T, T::copyable>::template build<AD>(tmp[0], seed, op.a, k2); } catch(const Boom &) { a = nullptr; }
				throwCountdown() = 0;
				if(a) {
					AD * b2 = nullptr;
					throwCountdown() = 1;
					try { b2 = new (tmp[1]) AD(std::move(*a)); } catch(const Boom &) { b2 = nullptr; }
					throwCountdown() = 0;
					if(b2) { check(*b2, "after a move following a build"); b2->~AD(); }
					a->~AD();
				}
				if(ledger().isFlagged()) r.fail("anydata.throw.destroyed", "after a throwing copy / move construction of the held object: " + ledger().message());
				break;
			}
			default: break;
			}
		}
		if(r.ok && ! T::copyable && counters().copies != 0) r.fail("anydata.moveonly.copied", "a move-only object was copied");
		(void)copiesAfterBuild;
		// destroy every shell (moved-from ones included), newest first
		for(size_t i = shells.size(); i > 0; --i) shells[i - 1]->~AD();
		if(K == 3 && keep && r.ok && useCount(*keep) != 1) r.fail("anydata.shared.release", "use_count after destroying every AnyData is " + std::to_string(useCount(*keep)));
	}
	if(r.ok && ledger().isFlagged()) r.fail("ledger.flag", ledger().message());
	if(r.ok && ledger().totalLive() != 0) r.fail("ledger.leak", std::to_string(ledger().totalLive()) + " held object(s) never destroyed");
	return r;
}

using CaseFn = CaseResult (*)(const Program &);

// size table (19 sizes): every capacity has N = M-1, M, M+1
#define VF_SIZES(X) X(1) X(2) X(4) X(7) X(8) X(15) X(16) X(17) X(23) X(24) X(25) X(31) X(32) X(33) X(63) X(64) X(65) X(100) X(256)
const int kSizes[] = { 1, 2, 4, 7, 8, 15, 16, 17, 23, 24, 25, 31, 32, 33, 63, 64, 65, 100, 256 };
const int kNumSizes = 19;

} // namespace vfad
