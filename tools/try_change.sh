#!/bin/bash
# usage: tools/try_change.sh <patch-file | sed:RELFILE:EXPR> ID [ID...]
# Like try_seed.sh for an ad-hoc change: scratch worktree of /repo, change applied there, checks pointed at it.
chg=$1; shift
tag=$$
wt=/var/tmp/trychg.$tag; out=/var/tmp/trychg_out.$tag
git -C /repo worktree add -q --detach $wt HEAD || exit 2
case "$chg" in
  sed:*) f=$(echo "$chg" | cut -d: -f2); e=$(echo "$chg" | cut -d: -f3-); sed -i "$e" $wt/$f ;;
  *) git -C $wt apply "$chg" || { echo "patch does not apply"; git -C /repo worktree remove --force $wt; exit 2; } ;;
esac
if git -C $wt diff --quiet; then echo "NO CHANGE MADE by $chg"; git -C /repo worktree remove --force $wt; exit 2; fi
git -C $wt diff | grep '^[-+]' | grep -v '^+++\|^---' | head -6
mkdir -p $out
for p in "$@"; do
  r=$(cd /verif && VERIF_REPO=$wt VERIF_OUT=$out VERIF_SEED=${VERIF_SEED:-1} ./check $p ${VERIF_TIER:+--tier $VERIF_TIER} 2>&1 | grep -E "^(OK|VIOLATION|NOTE|BROKEN|  signature)" | head -3 | cut -c1-170 | tr '\n' ' ')
  echo "$p: $r"
done
git -C /repo worktree remove --force $wt; rm -rf $out
