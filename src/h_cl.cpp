// Harness `cl` (C03): CallbackList and EventDispatcher under the harness-owned scheduler.
// Oracle: linearizability (Wing-Gong search) of add/remove/query calls ending in the observed final order,
// traversal rules (no callback twice, everything that stayed is visited, list order), deep probe after join.
#include <eventpp/callbacklist.h>
#include <eventpp/eventdispatcher.h>
#include <eventpp/hetercallbacklist.h>

#include "common/harness.h"
#include "common/ledger.h"
#include "common/sched.h"

#include <algorithm>
#include <map>
#include <memory>
#include <set>
#include <sstream>
#include <unordered_map>

namespace {
using namespace vf;

enum Kind { T_THREAD = 1, T_PRE_APPEND, L_APPEND = 10, L_PREPEND, L_INSERT, L_REMOVE, L_OWNS, L_EMPTY, L_FOREACH, L_INVOKE, L_MAX };
const char * kindName(int k)
{
	switch(k) {
	case T_THREAD: return "thread"; case T_PRE_APPEND: return "preAppend";
	case L_APPEND: return "append"; case L_PREPEND: return "prepend"; case L_INSERT: return "insert"; case L_REMOVE: return "remove";
	case L_OWNS: return "ownsHandle"; case L_EMPTY: return "empty"; case L_FOREACH: return "forEach"; case L_INVOKE: return "invoke";
	default: return "?";
	}
}
const int kMaxThreads = 5;
const int kKeys = 2;

struct Run;
Run * g_run = nullptr;
// feedback for the schedule enumerator: what the last scripted run looked like
long g_lastSteps = 0;
int g_lastEffective = 0, g_lastThreads = 0;
void onVisit(int node);

struct Cb : LedgeredT<2>
{
	explicit Cb(int node) : LedgeredT<2>(kCbBase + node) {}
	void operator() (int) const { touch(); onVisit(id - kCbBase); schedPoint("callback.body"); }
};

// event key whose comparison / hashing / copying are scheduling points: with the dispatcher's lock in place they only make
// other threads wait; without it they let two map operations interleave
struct SKey
{
	int v;
	SKey(int v_ = 0) : v(v_) {}
	SKey(const SKey & o) : v(o.v) { schedPoint("key.copy"); }
	SKey & operator = (const SKey & o) { v = o.v; return *this; }
	friend bool operator < (const SKey & a, const SKey & b) { schedPoint("key.less"); return a.v < b.v; }
	friend bool operator == (const SKey & a, const SKey & b) { schedPoint("key.equal"); return a.v == b.v; }
};
} // namespace
namespace std { template <> struct hash< ::SKey> { size_t operator() (const ::SKey & k) const { vf::schedPoint("key.hash"); return (size_t)k.v; } }; }
namespace {

struct ISubject
{
	virtual ~ISubject() {}
	virtual int keys() const = 0;
	virtual void add(int key, int how, int before, int node) = 0; // pushes the new handle
	virtual bool remove(int key, int h) = 0;
	virtual bool owns(int key, int h) = 0;
	virtual bool empty(int key) = 0;
	virtual void forEach(int key, std::vector<int> & nodes) = 0;
	virtual void invoke(int key) = 0;
	virtual size_t handleCount() = 0;
	virtual bool assigned(int h) = 0; // the add that creates handle h has returned and stored it
	virtual bool hasOwns() const { return true; } // HeterCallbackList has no ownsHandle
};

template <typename Threading_>
struct ListSubject : ISubject
{
	struct Pol { using Threading = Threading_; };
	using List = eventpp::CallbackList<void (int), Pol>;
	List list;
	std::vector<typename List::Handle> handles;
	std::mutex hm; // real mutex: the handle table is harness data
	typename List::Handle H(int h) { std::lock_guard<std::mutex> g(hm); return h >= 0 && (size_t)h < handles.size() ? handles[(size_t)h] : typename List::Handle(); }
	int keys() const override { return 1; }
	void add(int, int how, int before, int node) override {
		typename List::Handle b = H(before);
		typename List::Handle h = how == 0 ? list.append(Cb(node)) : how == 1 ? list.prepend(Cb(node)) : list.insert(Cb(node), b);
		std::lock_guard<std::mutex> g(hm);
		if(handles.size() <= (size_t)node) { handles.resize((size_t)node + 1); done.resize((size_t)node + 1, 0); }
		handles[(size_t)node] = h;
		done[(size_t)node] = 1;
	}
	std::vector<char> done;
	bool assigned(int h) override { std::lock_guard<std::mutex> g(hm); return h >= 0 && (size_t)h < done.size() && done[(size_t)h]; }
	bool remove(int, int h) override { return list.remove(H(h)); }
	bool owns(int, int h) override { return list.ownsHandle(H(h)); }
	bool empty(int) override { return list.empty(); }
	void forEach(int, std::vector<int> & nodes) override {
		list.forEach([&](const typename List::Callback & c) { const Cb * p = c.template target<Cb>(); nodes.push_back(p ? p->id - kCbBase : -1); schedPoint("enumerate.body"); });
	}
	void invoke(int) override { list(1); }
	size_t handleCount() override { std::lock_guard<std::mutex> g(hm); return handles.size(); }
};

// HeterCallbackList: the per-prototype list is created on first use (double-checked locking on the policy's mutex)
template <typename Threading_>
struct HeterListSubject : ISubject
{
	struct Pol { using Threading = Threading_; };
	using List = eventpp::HeterCallbackList<eventpp::HeterTuple<void (int), void (const std::string &)>, Pol>;
	List list;
	std::vector<typename List::Handle> handles;
	std::vector<char> done;
	std::mutex hm;
	typename List::Handle H(int h) { std::lock_guard<std::mutex> g(hm); return h >= 0 && (size_t)h < handles.size() ? handles[(size_t)h] : typename List::Handle(); }
	int keys() const override { return 1; }
	bool hasOwns() const override { return false; }
	void add(int, int how, int before, int node) override {
		typename List::Handle b = H(before);
		typename List::Handle h = how == 0 ? list.append(Cb(node)) : how == 1 ? list.prepend(Cb(node)) : list.insert(Cb(node), b);
		std::lock_guard<std::mutex> g(hm);
		if(handles.size() <= (size_t)node) { handles.resize((size_t)node + 1); done.resize((size_t)node + 1, 0); }
		handles[(size_t)node] = h;
		done[(size_t)node] = 1;
	}
	bool assigned(int h) override { std::lock_guard<std::mutex> g(hm); return h >= 0 && (size_t)h < done.size() && done[(size_t)h]; }
	bool remove(int, int h) override { return list.remove(H(h)); }
	bool owns(int, int h) override { std::vector<int> n; forEach(0, n); return std::find(n.begin(), n.end(), h) != n.end(); } // only used single-threaded (final probe)
	bool empty(int) override { return list.empty(); }
	void forEach(int, std::vector<int> & nodes) override {
		list.template forEach<void (int)>([&](const std::function<void (int)> & c) { const Cb * p = c.template target<Cb>(); nodes.push_back(p ? p->id - kCbBase : -1); schedPoint("enumerate.body"); });
	}
	void invoke(int) override { list(1); }
	size_t handleCount() override { std::lock_guard<std::mutex> g(hm); return handles.size(); }
};

template <typename Pol>
struct DispSubject : ISubject
{
	using Disp = eventpp::EventDispatcher<SKey, void (int), Pol>;
	Disp d;
	std::vector<typename Disp::Handle> handles;
	std::mutex hm;
	typename Disp::Handle H(int h) { std::lock_guard<std::mutex> g(hm); return h >= 0 && (size_t)h < handles.size() ? handles[(size_t)h] : typename Disp::Handle(); }
	int keys() const override { return kKeys; }
	void add(int key, int how, int before, int node) override {
		typename Disp::Handle b = H(before);
		typename Disp::Handle h = how == 0 ? d.appendListener(SKey(key), Cb(node)) : how == 1 ? d.prependListener(SKey(key), Cb(node)) : d.insertListener(SKey(key), Cb(node), b);
		std::lock_guard<std::mutex> g(hm);
		if(handles.size() <= (size_t)node) { handles.resize((size_t)node + 1); done.resize((size_t)node + 1, 0); }
		handles[(size_t)node] = h;
		done[(size_t)node] = 1;
	}
	std::vector<char> done;
	bool assigned(int h) override { std::lock_guard<std::mutex> g(hm); return h >= 0 && (size_t)h < done.size() && done[(size_t)h]; }
	bool remove(int key, int h) override { return d.removeListener(SKey(key), H(h)); }
	bool owns(int key, int h) override { return d.ownsHandle(SKey(key), H(h)); }
	bool empty(int key) override { return ! d.hasAnyListener(SKey(key)); }
	void forEach(int key, std::vector<int> & nodes) override {
		d.forEach(SKey(key), [&](const typename Disp::Callback & c) { const Cb * p = c.template target<Cb>(); nodes.push_back(p ? p->id - kCbBase : -1); schedPoint("enumerate.body"); });
	}
	void invoke(int key) override { d.dispatch(SKey(key), 1); }
	size_t handleCount() override { std::lock_guard<std::mutex> g(hm); return handles.size(); }
};
struct PolMap { using Threading = SchedThreading; template <typename K, typename V> using Map = std::map<K, V>; using ArgumentPassingMode = eventpp::ArgumentPassingExcludeEvent; };
struct PolHash { using Threading = SchedThreading; template <typename K, typename V> using Map = std::unordered_map<K, V>; using ArgumentPassingMode = eventpp::ArgumentPassingExcludeEvent; };

// ---------------------------------------------------------------- history

struct OpRec
{
	int thread, kind, key;
	long t0 = -1, t1 = -1;
	int node = -1;      // add: the new node; remove/owns/insert: the operand
	int before = -1;
	int how = 0;
	bool result = false;
	std::vector<int> visited; // traversals
};

struct Run
{
	const Program & prog;
	Verdict & v;
	std::unique_ptr<ISubject> subj;
	std::unique_ptr<Sched> sched;
	std::vector<OpRec> ops;
	std::vector<int> nodeKey;          // node -> key
	std::vector<int> curTraversal;     // per thread: index of the traversal op in progress, or -1
	std::mutex mu;                     // harness data (under the baton only one thread runs, but keep it simple and safe)
	bool failed = false;
	std::ostringstream log;
	int nextNode = 0;
	bool overlapStructural = false, midPreempt = false;

	Run(const Program & p, Verdict & v_) : prog(p), v(v_) {}
	void fail(const std::string & rule, const std::string & msg) {
		if(failed) return;
		failed = true;
		std::string s = log.str();
		if(s.size() > 900) s = "..." + s.substr(s.size() - 900);
		v.fail(rule, "C03", msg + " | log: " + s);
	}
	long now() const { return sched ? sched->now() : 0; }
	int me() const { return sched ? sched->self() : 0; }

	void visit(int node) {
		int t = me();
		if(t >= 0 && t < (int)curTraversal.size() && curTraversal[(size_t)t] >= 0) ops[(size_t)curTraversal[(size_t)t]].visited.push_back(node);
	}

	// operand: a handle whose creating call has returned (otherwise the harness itself would pass an empty handle)
	int pickHandle(int a) {
		int n = (int)subj->handleCount();
		if(n == 0) return -1;
		int h = ((a % n) + n) % n;
		return subj->assigned(h) ? h : -1;
	}

	void doOp(const Op & op) {
		const int t = me();
		OpRec r;
		r.thread = t; r.kind = op.kind; r.key = subj->keys() > 1 ? (op.c & 1) : 0;
		switch(op.kind) {
		case L_APPEND: case L_PREPEND: case L_INSERT: {
			r.how = op.kind == L_APPEND ? 0 : op.kind == L_PREPEND ? 1 : 2;
			r.before = r.how == 2 ? pickHandle(op.a) : -1;
			if(r.before >= 0 && nodeKey[(size_t)r.before] != r.key) r.before = -1; // a handle of another event's list is documented UB
			r.node = nextNode++;
			nodeKey.push_back(r.key);
			r.t0 = now();
			size_t idx = ops.size();
			ops.push_back(r);
			subj->add(r.key, r.how, r.before, r.node);
			ops[idx].t1 = now();
			ops[idx].result = true;
			log << " t" << t << ":" << kindName(op.kind) << "(n" << r.node << (r.how == 2 ? " before n" + std::to_string(r.before) : std::string()) << ")";
			break;
		}
		case L_REMOVE: case L_OWNS: {
			if(op.kind == L_OWNS && ! subj->hasOwns()) break;
			r.node = pickHandle(op.a);
			if(r.node < 0) break;
			r.key = nodeKey[(size_t)r.node];
			r.t0 = now();
			size_t idx = ops.size();
			ops.push_back(r);
			bool res = op.kind == L_REMOVE ? subj->remove(r.key, r.node) : subj->owns(r.key, r.node);
			ops[idx].t1 = now();
			ops[idx].result = res;
			log << " t" << t << ":" << kindName(op.kind) << "(n" << r.node << ")=" << res;
			break;
		}
		case L_EMPTY: {
			r.t0 = now();
			size_t idx = ops.size();
			ops.push_back(r);
			bool res = subj->empty(r.key);
			ops[idx].t1 = now();
			ops[idx].result = res;
			break;
		}
		case L_FOREACH: case L_INVOKE: {
			r.t0 = now();
			size_t idx = ops.size();
			ops.push_back(r);
			if(op.kind == L_INVOKE) {
				curTraversal[(size_t)t] = (int)idx;
				subj->invoke(r.key);
				curTraversal[(size_t)t] = -1;
			}
			else {
				std::vector<int> nodes;
				subj->forEach(r.key, nodes);
				ops[idx].visited = nodes;
			}
			ops[idx].t1 = now();
			log << " t" << t << ":" << kindName(op.kind) << "[";
			for(int n : ops[idx].visited) log << " n" << n;
			log << " ]";
			break;
		}
		default: break;
		}
	}

	// ---- linearizability of the add / remove / query calls of one key, ending in the observed final order

	struct Search
	{
		const std::vector<OpRec> & ops;
		std::vector<int> idx;            // indices into ops (one key, non-traversal, completed)
		std::vector<int> finalOrder;
		std::set<std::pair<unsigned, std::vector<int> > > dead;
		long expanded = 0;
		bool apply(const OpRec & o, std::vector<int> & st) const {
			auto it = std::find(st.begin(), st.end(), o.node);
			switch(o.kind) {
			case L_APPEND: st.push_back(o.node); return true;
			case L_PREPEND: st.insert(st.begin(), o.node); return true;
			case L_INSERT: {
				auto b = std::find(st.begin(), st.end(), o.before);
				if(o.before >= 0 && b != st.end()) st.insert(b, o.node); else st.push_back(o.node);
				return true;
			}
			case L_REMOVE: {
				bool in = it != st.end();
				if(in) st.erase(it);
				return in == o.result;
			}
			case L_OWNS: return (it != st.end()) == o.result;
			case L_EMPTY: return st.empty() == o.result;
			default: return true;
			}
		}
		bool dfs(unsigned doneMask, std::vector<int> & st) {
			if(doneMask == (1u << idx.size()) - 1) return st == finalOrder;
			if(++expanded > 400000) return true; // give up: inconclusive counts as held
			auto key = std::make_pair(doneMask, st);
			if(dead.count(key)) return false;
			// an op may come next only if no other pending op finished before it began
			for(size_t i = 0; i < idx.size(); ++i) {
				if(doneMask & (1u << i)) continue;
				const OpRec & o = ops[(size_t)idx[i]];
				bool minimal = true;
				for(size_t j = 0; j < idx.size() && minimal; ++j) {
					if(j == i || (doneMask & (1u << j))) continue;
					if(ops[(size_t)idx[j]].t1 < o.t0) minimal = false;
				}
				if(! minimal) continue;
				std::vector<int> next = st;
				if(! apply(o, next)) continue;
				if(dfs(doneMask | (1u << i), next)) return true;
			}
			dead.insert(key);
			return false;
		}
	};

	void checkKey(int key, const std::vector<int> & prefix) {
		std::vector<int> finalOrder;
		subj->forEach(key, finalOrder);
		Search s { ops, {}, finalOrder, {}, 0 };
		for(size_t i = 0; i < ops.size(); ++i) {
			const OpRec & o = ops[i];
			if(o.key != key || o.t1 < 0) continue;
			if(o.kind == L_FOREACH || o.kind == L_INVOKE) continue;
			s.idx.push_back((int)i);
		}
		if(s.idx.size() > 24) return;
		std::vector<int> st = prefix;
		if(! s.dfs(0, st)) {
			std::ostringstream m;
			m << "no sequential order of the calls on key " << key << " (respecting program order and real-time order) reproduces their results and the final order [";
			for(int n : finalOrder) m << " n" << n;
			m << " ]; initial [";
			for(int n : prefix) m << " n" << n;
			m << " ]";
			fail("cl.linearizability", m.str());
			return;
		}
		// traversals
		for(const OpRec & tr : ops) {
			if(tr.key != key || (tr.kind != L_FOREACH && tr.kind != L_INVOKE) || tr.t1 < 0) continue;
			std::set<int> seen;
			for(int n : tr.visited) {
				if(! seen.insert(n).second) { fail("cl.traverse.twice", std::string(kindName(tr.kind)) + " on thread " + std::to_string(tr.thread) + " visited n" + std::to_string(n) + " twice"); return; }
				if(n < 0 || n >= (int)nodeKey.size() || nodeKey[(size_t)n] != key) { fail("cl.traverse.foreign", "traversal visited a callback that was never added to this list"); return; }
			}
			// every callback that stayed in the list for the whole traversal is visited
			std::vector<int> candidates = prefix;
			for(const OpRec & o : ops) if(o.key == key && (o.kind == L_APPEND || o.kind == L_PREPEND || o.kind == L_INSERT) && o.t1 >= 0 && o.t1 < tr.t0) candidates.push_back(o.node);
			for(int n : candidates) {
				bool removedMaybe = false;
				for(const OpRec & o : ops) if(o.kind == L_REMOVE && o.node == n && o.t0 <= tr.t1 && (o.t1 < 0 || o.result)) removedMaybe = true;
				if(! removedMaybe && ! seen.count(n)) { fail("cl.traverse.missed", std::string(kindName(tr.kind)) + " on thread " + std::to_string(tr.thread) + " over steps [" + std::to_string(tr.t0) + "," + std::to_string(tr.t1) + "] did not visit n" + std::to_string(n) + ", which was in the list for its whole duration"); return; }
			}
			// only callbacks that could have been in the list
			for(int n : tr.visited) {
				for(const OpRec & o : ops) {
					if(o.kind == L_REMOVE && o.node == n && o.result && o.t1 >= 0 && o.t1 < tr.t0) { fail("cl.traverse.removed", "traversal visited n" + std::to_string(n) + " whose removal had returned before the traversal began"); return; }
					if((o.kind == L_APPEND || o.kind == L_PREPEND || o.kind == L_INSERT) && o.node == n && o.t0 > tr.t1) { fail("cl.traverse.future", "traversal visited n" + std::to_string(n) + " whose addition began after the traversal ended"); return; }
				}
			}
			// list order: survivors appear in the order of the final list
			std::vector<int> surv;
			for(int n : tr.visited) if(std::find(finalOrder.begin(), finalOrder.end(), n) != finalOrder.end()) surv.push_back(n);
			size_t pos = 0;
			for(int n : surv) {
				auto it = std::find(finalOrder.begin() + (long)pos, finalOrder.end(), n);
				if(it == finalOrder.end()) { fail("cl.traverse.order", std::string(kindName(tr.kind)) + " on thread " + std::to_string(tr.thread) + " visited surviving callbacks in an order that contradicts the list order"); return; }
				pos = (size_t)(it - finalOrder.begin()) + 1;
			}
		}
		if(failed) return;
		// deep probe: ownsHandle for every handle, then remove the survivors one by one, re-enumerating
		for(int h = 0; h < (int)nodeKey.size() && ! failed; ++h) {
			if(nodeKey[(size_t)h] != key) continue;
			bool in = std::find(finalOrder.begin(), finalOrder.end(), h) != finalOrder.end();
			if(subj->owns(key, h) != in) fail("cl.probe.owns", "after the threads joined, ownsHandle(n" + std::to_string(h) + ") disagrees with the enumerated content");
		}
		ChoiceSource ch(prog, fnv1a(toText(prog)) + (uint64_t)key);
		std::vector<int> cur = finalOrder;
		while(! failed && ! cur.empty()) {
			size_t k = ch.below((uint32_t)cur.size());
			int n = cur[k];
			cur.erase(cur.begin() + (long)k);
			if(! subj->remove(key, n)) { fail("cl.probe.remove", "after the threads joined, remove(n" + std::to_string(n) + ") returned false for a listed callback"); break; }
			std::vector<int> got;
			subj->forEach(key, got);
			if(got != cur) { fail("cl.probe.enumerate", "after the threads joined, removing n" + std::to_string(n) + " left a list that does not match (broken links)"); break; }
		}
		if(! failed && ! subj->empty(key)) fail("cl.probe.empty", "list not empty after removing every callback");
	}

	static int listCsGroup(const char * tag) { return strncmp(tag, "cs.cbl.", 7) == 0 ? 1 : 0; }
	static int dispCsGroup(const char * tag) { return strncmp(tag, "cs.disp.", 8) == 0 ? 2 : 0; }

	void run() {
		const int cfg = prog.params.size() > 0 ? ((prog.params[0] % 5) + 5) % 5 : 0;
		const int strategy = prog.params.size() > 1 ? ((prog.params[1] % 3) + 3) % 3 : 0;
		// params[3] == 77: scripted schedule (bounded-exhaustive exploration, see h_cq.cpp); params[2] & 1: forced switches
		// go to the highest runnable thread instead of the lowest
		const bool scripted = prog.params.size() > 3 && prog.params[3] == 77;
		Program choiceProg = prog;
		if(scripted) choiceProg.sched.clear();
		ChoiceSource choice(scripted ? choiceProg : prog, fnv1a(toText(prog)));
		installSchedHook();
		sched.reset(new Sched(choice, scripted ? 3 : strategy, false));
		if(scripted) {
			sched->scriptHighFirst = (prog.params[2] & 1) != 0;
			for(size_t i = 0; i + 3 <= prog.sched.size(); i += 3) sched->script.push_back(std::make_pair((long)prog.sched[i] * 256 + prog.sched[i + 1], (int)prog.sched[i + 2]));
		}
		// one list (cfg 0, 1) or one dispatcher whose lists are many (cfg 2, 3): only sections over a single object count
		sched->csGroupOf = cfg < 2 ? &listCsGroup : cfg < 4 ? &dispCsGroup : nullptr;
		if(cfg == 4) sched->noPreemptPrefix = "cs.cbl."; // the per-prototype lists of HeterCallbackList use std::mutex whatever the policy says
		switch(cfg) {
		case 0: subj.reset(new ListSubject<SchedThreading>()); break;
		case 1: subj.reset(new ListSubject<SchedSpinThreading>()); break;
		case 2: subj.reset(new DispSubject<PolMap>()); break;
		case 3: subj.reset(new DispSubject<PolHash>()); break;
		default: subj.reset(new HeterListSubject<SchedThreading>()); break;
		}
		std::vector<const std::vector<Op> *> scripts;
		std::vector<std::vector<int> > prefix((size_t)subj->keys());
		for(const Op & op : prog.ops) {
			if(op.kind == T_THREAD && scripts.size() < (size_t)kMaxThreads) scripts.push_back(&op.body);
			else if(op.kind == T_PRE_APPEND && nextNode < 4) {
				int key = subj->keys() > 1 ? (op.c & 1) : 0;
				int node = nextNode++;
				nodeKey.push_back(key);
				subj->add(key, 0, -1, node);
				prefix[(size_t)key].push_back(node);
			}
		}
		curTraversal.assign(scripts.size() + 1, -1);
		for(const std::vector<Op> * s : scripts) sched->spawn([this, s]() { for(const Op & op : *s) { if(failed) break; doOp(op); } });
		if(! sched->joinAll()) dieWithFailure("deadlock", "threads are blocked and none can run", EXIT_DEADLOCK);
		// classes
		for(size_t i = 0; i < ops.size(); ++i) for(size_t j = i + 1; j < ops.size(); ++j) {
			const OpRec & a = ops[i], & b = ops[j];
			bool structural = (a.kind >= L_APPEND && a.kind <= L_REMOVE) || (b.kind >= L_APPEND && b.kind <= L_REMOVE);
			if(a.thread != b.thread && a.key == b.key && structural && a.t0 <= b.t1 && b.t0 <= a.t1) overlapStructural = true;
		}
		midPreempt = sched->csPreemptions > 0 || sched->unlockedPreemptions > 0;
		if(! failed && ! sched->csOverlap.empty()) fail("cl.cs.overlap", "two threads inside critical sections over the same container at once: " + sched->csOverlap);
		for(int k = 0; k < subj->keys() && ! failed; ++k) checkKey(k, prefix[(size_t)k]);
		subj.reset();
		g_lastSteps = sched->now();
		g_lastEffective = sched->scriptEffective;
		g_lastThreads = (int)sched->threadCount() - 1;
		sched.reset();
		if(! failed) {
			if(ledger().isFlagged()) { failed = true; v.fail("ledger.flag", "C03,C08", ledger().message()); }
			else if(ledger().totalLive() != 0) { failed = true; v.fail("ledger.leak", "C03,C08", std::to_string(ledger().totalLive()) + " callback object(s) alive after the list was destroyed"); }
		}
	}
};

void onVisit(int node) { if(g_run) g_run->visit(node); }

Grammar makeGrammar()
{
	Grammar g;
	g.params = { ArgSpec(0, 4), ArgSpec(0, 2) };
	g.maxSched = 96;
	g.maxDepth = 2;
	g.maxTotalOps = 30;
	Level top;
	top.minOps = 2;
	top.maxOps = 6;
	top.kinds = {
		{ T_THREAD, "thread", 10, ArgSpec(0, 0), ArgSpec(0, 0), ArgSpec(0, 0), 1, 4 },
		{ T_PRE_APPEND, "preAppend", 5, ArgSpec(0, 0), ArgSpec(0, 0), ArgSpec(0, 1), -1, 0 },
	};
	g.levels.push_back(top);
	Level th;
	const ArgSpec h(0, 7), key(0, 1);
	th.kinds = {
		{ L_APPEND, "append", 8, ArgSpec(0, 0), ArgSpec(0, 0), key, -1, 0 },
		{ L_PREPEND, "prepend", 5, ArgSpec(0, 0), ArgSpec(0, 0), key, -1, 0 },
		{ L_INSERT, "insert", 8, h, ArgSpec(0, 0), key, -1, 0 },
		{ L_REMOVE, "remove", 10, h, ArgSpec(0, 0), key, -1, 0 },
		{ L_OWNS, "ownsHandle", 3, h, ArgSpec(0, 0), key, -1, 0 },
		{ L_EMPTY, "empty", 2, ArgSpec(0, 0), ArgSpec(0, 0), key, -1, 0 },
		{ L_FOREACH, "forEach", 4, ArgSpec(0, 0), ArgSpec(0, 0), key, -1, 0 },
		{ L_INVOKE, "invoke", 6, ArgSpec(0, 0), ArgSpec(0, 0), key, -1, 0 },
	};
	g.levels.push_back(th);
	return g;
}
const Grammar & grammar(const std::string &) { static Grammar g = makeGrammar(); return g; }

Verdict run(const Program & p, const std::string &)
{
	Verdict v;
	v.classes.reserve(8);
	ledger().reset();
	{
		Run r(p, v);
		g_run = &r;
		r.run();
		g_run = nullptr;
		if(r.overlapStructural) v.classes.push_back("overlapping_calls_with_structural_change");
		if(r.midPreempt) v.classes.push_back("preempted_inside_or_between_halves_of_a_call");
		v.nontrivial = r.overlapStructural && r.midPreempt;
		const std::string full = r.log.str();
		v.trace.assign(full, 0, std::min<size_t>(full.size(), 4000));
	}
	ledger().reset();
	return v;
}

// ---------------------------------------------------------------- bounded-exhaustive schedules (see h_cq.cpp)
Op mk(int kind, int a = 0, int b = 0, int c = 0) { Op o; o.kind = kind; o.a = a; o.b = b; o.c = c; return o; }
Op thread(std::initializer_list<Op> body) { Op t = mk(T_THREAD); t.body.assign(body.begin(), body.end()); return t; }

std::vector<Program> makeTemplates()
{
	std::vector<Program> out;
	// two callbacks n0, n1 are in the list (key 0) before the threads start
	const Op voc[10] = { mk(L_APPEND), mk(L_PREPEND), mk(L_INSERT, 0), mk(L_INSERT, 1), mk(L_REMOVE, 0), mk(L_REMOVE, 1), mk(L_OWNS, 0), mk(L_FOREACH), mk(L_INVOKE), mk(L_EMPTY) };
	int pre = 2;
	auto add = [&](std::initializer_list<Op> threads) {
		Program p;
		for(int i = 0; i < pre; ++i) p.ops.push_back(mk(T_PRE_APPEND));
		for(const Op & t : threads) p.ops.push_back(t);
		out.push_back(p);
	};
	for(int i = 0; i < 10; ++i) for(int j = i; j < 10; ++j) {
		if(i >= 6 && j >= 6) continue; // two queries: nothing structural
		add({ thread({ voc[i] }), thread({ voc[j] }) });
	}
	add({ thread({ voc[4] }), thread({ voc[4] }), thread({ voc[8] }) });            // two removals of n0 and an invocation
	add({ thread({ voc[2] }), thread({ voc[4] }), thread({ voc[7] }) });            // insert before n0, remove n0, forEach
	add({ thread({ voc[0] }), thread({ voc[1] }), thread({ voc[8] }) });            // append, prepend, invocation
	add({ thread({ voc[4], voc[5] }), thread({ voc[8] }) });                        // empty the list under an invocation
	add({ thread({ voc[4], voc[0] }), thread({ voc[3], voc[7] }) });
	add({ thread({ voc[5], voc[1] }), thread({ voc[2], voc[8] }) });
	// the same on a list that starts empty (first-node paths), and on a list of one
	for(pre = 0; pre < 2; ++pre) {
		for(int i = 0; i < 2; ++i) for(int j = i; j < 2; ++j) add({ thread({ voc[i] }), thread({ voc[j] }) });
		for(int i = 0; i < 2; ++i) { add({ thread({ voc[i] }), thread({ voc[8] }) }); add({ thread({ voc[i] }), thread({ voc[7] }) }); add({ thread({ voc[i] }), thread({ voc[9] }) }); }
		add({ thread({ voc[0] }), thread({ voc[1] }), thread({ voc[1] }) });
	}
	pre = 1;
	for(int i = 0; i < 3; ++i) { add({ thread({ voc[4] }), thread({ voc[i] }) }); add({ thread({ voc[4] }), thread({ voc[i] }), thread({ voc[8] }) }); }
	return out;
}

std::string enumerate(const std::string &, const std::function<bool (const Program &)> & sink)
{
	int K = 1, shard = 0, shards = 1;
	if(const char * e = getenv("VERIF_ENUM_K")) K = std::max(0, std::min(atoi(e), 3));
	if(const char * e = getenv("VERIF_ENUM_SHARD")) { if(sscanf(e, "%d/%d", &shard, &shards) != 2 || shards < 1) { shard = 0; shards = 1; } }
	const std::vector<Program> templates = makeTemplates();
	long index = 0, runs = 0, pruned = 0;
	bool stop = false;
	std::function<void (Program &, std::vector<std::pair<long, int> > &, int)> dfs = [&](Program & p, std::vector<std::pair<long, int> > & pre, int depth) {
		if(stop) return;
		p.sched.clear();
		for(auto & r : pre) { p.sched.push_back((unsigned char)(r.first >> 8)); p.sched.push_back((unsigned char)(r.first & 255)); p.sched.push_back((unsigned char)r.second); }
		++runs;
		if(! sink(p)) { stop = true; return; }
		const long steps = std::min<long>(g_lastSteps, 4000);
		const int threads = g_lastThreads;
		if(depth > 0 && g_lastEffective < depth) { ++pruned; return; }
		if(depth >= K) return;
		const long from = pre.empty() ? 1 : pre.back().first + 1;
		for(long s = from; s <= steps && ! stop; ++s) for(int t = 1; t <= threads && ! stop; ++t) {
			pre.push_back(std::make_pair(s, t));
			dfs(p, pre, depth + 1);
			pre.pop_back();
		}
	};
	for(const Program & tpl : templates) for(int cfg = 0; cfg < 5 && ! stop; ++cfg) for(int order = 0; order < 2 && ! stop; ++order) {
		if(index++ % shards != shard) continue;
		Program p = tpl;
		p.params = { cfg, 0, order, 77 };
		std::vector<std::pair<long, int> > pre;
		dfs(p, pre, 0);
	}
	return std::to_string(templates.size()) + " thread programs over a list of 0, 1 or 2 callbacks x 5 subjects (list with mutex / SpinLock, dispatcher with map / unordered_map, HeterCallbackList) x 2 orders for forced switches, every schedule with <= "
		+ std::to_string(K) + " preemption(s) (shard " + std::to_string(shard) + "/" + std::to_string(shards) + ": " + std::to_string(runs) + " runs, " + std::to_string(pruned) + " ineffective preemptions pruned)";
}
} // namespace

namespace vf {
const Harness g_harness = { "cl", &grammar, &run, &kindName, &enumerate };
}
