#!/usr/bin/env python3
"""Regenerate MANIFEST.json from lib/props.py (keeps the manifest and the driver's table consistent)."""
import json, os, sys, subprocess
VERIF = os.path.dirname(os.path.dirname(os.path.abspath(__file__)))
sys.path.insert(0, os.path.join(VERIF, 'lib'))
import props as P

hooks_commits = subprocess.run(['git', '-C', '/repo', 'log', '--format=%h %s'], stdout=subprocess.PIPE, text=True).stdout.splitlines()
hook_shas = [l.split()[0] for l in hooks_commits if 'verif hooks' in l]

checks = []
for pid in sorted(P.PROPS):
    s = P.PROPS[pid]
    checks.append(dict(
        property_id=pid,
        quick_cmd='./check %s --tier quick' % pid,
        thorough_cmd='./check %s --tier thorough' % pid,
        evidence_file='evidence/%s.json' % pid,
        replay_cmd_template='./check %s --replay {path}' % pid,
        engine=s.get('engine', 'rapidcheck + libFuzzer + replay corpus'),
        level_claimed=dict(category=s['level'], text=s['level_text'], design_ref='DESIGN.md section 3, ' + pid),
        level_note=s['level_note'],
        technique=s['technique'],
    ))
na = [dict(property_id=k, reason=v) for k, v in sorted(P.NOT_APPLICABLE.items())]
m = dict(
    version=1,
    setup_cmd='./check --setup',
    hooks=dict(
        guard='EVENTPP_VERIF',
        enable='checks compile their harness with -DEVENTPP_VERIF -I/repo/include (header-only library; nothing in /repo is built)',
        baseline_off_cmd='cmake --build /repo/_build && cmake --install /repo/_build --prefix /repo/_prefix && cmake --build /repo/_build_tests -j16 && ctest --test-dir /repo/_build_tests -j8 --timeout 900',
        source_commits=hook_shas,
        add_only=True,
    ),
    engines=[
        dict(name='rapidcheck', path='src/common/engine_rc.cpp', serves_properties=sorted(P.PROPS), kind_free_text='structured generation + shrinking of Program values built from each harness grammar'),
        dict(name='libFuzzer', path='src/common/engine_fz.cpp', serves_properties=sorted(p for p in P.PROPS if any(st['engine'] == 'fuzz' for st in P.PROPS[p]['thorough']['stages'])), kind_free_text='coverage-guided, structure-aware decoding of bytes into the same Program type (thorough tier)'),
        dict(name='replay', path='check', serves_properties=sorted(P.PROPS), kind_free_text='committed minimal cases under regress/<id>/ run first in every tier; out-of-process delta debugging (lib/minimize.py)'),
    ],
    checks=checks,
    notes='One driver (./check) for all properties; each check rebuilds its harness from /repo working tree (content-hash cache under build/cache). Known-findings protocol: KNOWN_FINDINGS.txt.',
    not_applicable=na,
)
json.dump(m, open(os.path.join(VERIF, 'MANIFEST.json'), 'w'), indent=1)
print('MANIFEST.json: %d checks, %d not applicable' % (len(checks), len(na)))
