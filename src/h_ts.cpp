// Harness `ts`: generated thread programs on real threads (std::mutex, OS scheduling) under ThreadSanitizer.
// Complements the controlled scheduler (DESIGN 8.5): a lock removed around a single std::list / std::map call is atomic
// under cooperative scheduling but is a data race here. Oracle: any ThreadSanitizer report that is not one of the
// library's documented unlocked reads (suppressions: tools/tsan.supp), plus exactly-once event accounting.
#include <eventpp/eventqueue.h>
#include <eventpp/hetereventqueue.h>
#include <eventpp/eventdispatcher.h>

#include "common/harness.h"

#include <atomic>
#include <cstdlib>
#include <map>
#include <mutex>
#include <thread>
#include <vector>

namespace {
using namespace vf;

std::atomic<int> g_reports(0);
}
// called by the ThreadSanitizer runtime for every report that is not suppressed
extern "C" void __tsan_on_report(void *) { g_reports.fetch_add(1); }

namespace {

enum Kind { T_THREAD = 1, S_ENQ = 10, S_PROCESS, S_PROCESSONE, S_PROCESSIF, S_PROCESSUNTIL, S_TAKE, S_PEEK, S_CLEAR, S_EMPTY, S_ADDL, S_REMOVEL, S_DISPATCH, S_HASANY, S_MAX };
const char * kindName(int k)
{
	switch(k) {
	case T_THREAD: return "thread";
	case S_ENQ: return "enqueue"; case S_PROCESS: return "process"; case S_PROCESSONE: return "processOne"; case S_PROCESSIF: return "processIf";
	case S_PROCESSUNTIL: return "processUntil"; case S_TAKE: return "takeEvent"; case S_PEEK: return "peekEvent"; case S_CLEAR: return "clearEvents";
	case S_EMPTY: return "emptyQueue"; case S_ADDL: return "appendListener"; case S_REMOVEL: return "removeListener"; case S_DISPATCH: return "dispatch";
	case S_HASANY: return "hasAnyListener";
	default: return "?";
	}
}
const int kMaxThreads = 4;
const int kMaxEvents = 4096;

struct Counters
{
	std::atomic<int> delivered[kMaxEvents];
	std::atomic<int> next;
	std::atomic<long> cleared;
	void reset() { for(auto & d : delivered) d.store(0); next.store(0); cleared.store(0); }
};
Counters g_c;

struct Payload
{
	int serial;
	explicit Payload(int s = -1) : serial(s) {}
	Payload(const Payload & o) : serial(o.serial) {}
	~Payload() {}
};

using Queue = eventpp::EventQueue<int, void (int, const Payload &)>;
using HQueue = eventpp::HeterEventQueue<int, eventpp::HeterTuple<void (const Payload &), void (const Payload &, int)> >;
struct KeyPol { using ArgumentPassingMode = eventpp::ArgumentPassingExcludeEvent; };
using Disp = eventpp::EventDispatcher<int, void (int), KeyPol>;
struct MapPol { using ArgumentPassingMode = eventpp::ArgumentPassingExcludeEvent; template <typename K, typename V> using Map = std::map<K, V>; };
using DispMap = eventpp::EventDispatcher<int, void (int), MapPol>;
// the library's SpinLock as the mutex: its acquire / release orders are what makes the protected data race-free
struct SpinPol { using Threading = eventpp::GeneralThreading<eventpp::SpinLock>; };
using QueueSpin = eventpp::EventQueue<int, void (int, const Payload &), SpinPol>;
struct SpinKeyPol { using ArgumentPassingMode = eventpp::ArgumentPassingExcludeEvent; using Threading = eventpp::GeneralThreading<eventpp::SpinLock>; };
using DispSpin = eventpp::EventDispatcher<int, void (int), SpinKeyPol>;

void deliver(const Payload & p) { if(p.serial >= 0 && p.serial < kMaxEvents) g_c.delivered[p.serial].fetch_add(1); }

struct Barrier
{
	std::atomic<int> waiting;
	int total;
	explicit Barrier(int n) : waiting(0), total(n) {}
	void arrive() { waiting.fetch_add(1); while(waiting.load() < total) std::this_thread::yield(); }
};

template <typename Q> void queueOp(Q & q, const Op & op, std::integral_constant<int, 0>)
{
	switch(op.kind) {
	case S_ENQ: { int s = g_c.next.fetch_add(1); if(s < kMaxEvents) q.enqueue(op.a & 1, Payload(s)); break; }
	case S_PROCESS: q.process(); break;
	case S_PROCESSONE: q.processOne(); break;
	case S_PROCESSIF: { const int bit = op.a & 1; q.processIf([bit](int, const Payload & p) { return (p.serial & 1) == bit; }); break; }
	case S_PROCESSUNTIL: { const int lim = op.a & 3; int n = 0; q.processUntil([lim, &n](int, const Payload &) { return n++ >= lim; }); break; }
	case S_TAKE: { typename Q::QueuedEvent e; if(q.takeEvent(&e)) deliver(std::get<1>(e.arguments)); break; }
	case S_PEEK: { typename Q::QueuedEvent e; q.peekEvent(&e); break; }
	case S_CLEAR: break; // discarded events cannot be told from lost ones without instrumentation: not generated here
	case S_EMPTY: (void)q.emptyQueue(); break;
	default: break;
	}
}
template <typename Q> void queueOp(Q & q, const Op & op, std::integral_constant<int, 1>)
{
	switch(op.kind) {
	case S_ENQ: { int s = g_c.next.fetch_add(1); if(s < kMaxEvents) { if(op.a & 2) q.enqueue(op.a & 1, Payload(s), 3); else q.enqueue(op.a & 1, Payload(s)); } break; }
	case S_PROCESS: q.process(); break;
	case S_PROCESSONE: q.processOne(); break;
	case S_PROCESSIF: { const int bit = op.a & 1; q.processIf([bit](const Payload & p) { return (p.serial & 1) == bit; }); break; }
	case S_EMPTY: (void)q.emptyQueue(); break;
	default: break;
	}
}

template <typename D> void dispOp(D & d, const Op & op, std::vector<typename D::Handle> & mine, std::vector<int> & mineKey)
{
	const int key = op.a % 6;
	switch(op.kind) {
	case S_ADDL: mine.push_back(d.appendListener(key, [](int) {})); mineKey.push_back(key); break;
	case S_REMOVEL: if(! mine.empty()) { d.removeListener(mineKey.back(), mine.back()); mine.pop_back(); mineKey.pop_back(); } break;
	case S_DISPATCH: d.dispatch(key, 1); break;
	case S_HASANY: (void)d.hasAnyListener(key); break;
	default: break;
	}
}

Grammar makeGrammar(const std::string & prop)
{
	Grammar g;
	// params[0] selects the subject. C06: EventQueue, HeterEventQueue, EventQueue with SpinLock. C03: dispatcher with
	// unordered_map, with std::map, with SpinLock
	g.params = { ArgSpec(0, 2), ArgSpec(4, 24) };
	g.maxDepth = 2;
	g.maxTotalOps = 40;
	Level top;
	top.minOps = 2;
	top.maxOps = 4;
	top.kinds = { { T_THREAD, "thread", 1, ArgSpec(0, 0), ArgSpec(0, 0), ArgSpec(0, 0), 1, 6 } };
	g.levels.push_back(top);
	Level th;
	const ArgSpec a(0, 7);
	if(prop == "C03") {
		th.kinds = {
			{ S_ADDL, "appendListener", 10, a, ArgSpec(0, 0), ArgSpec(0, 0), -1, 0 },
			{ S_REMOVEL, "removeListener", 6, a, ArgSpec(0, 0), ArgSpec(0, 0), -1, 0 },
			{ S_DISPATCH, "dispatch", 8, a, ArgSpec(0, 0), ArgSpec(0, 0), -1, 0 },
			{ S_HASANY, "hasAnyListener", 3, a, ArgSpec(0, 0), ArgSpec(0, 0), -1, 0 },
		};
	}
	else {
		th.kinds = {
			{ S_ENQ, "enqueue", 12, a, ArgSpec(0, 0), ArgSpec(0, 0), -1, 0 },
			{ S_PROCESS, "process", 5, a, ArgSpec(0, 0), ArgSpec(0, 0), -1, 0 },
			{ S_PROCESSONE, "processOne", 6, a, ArgSpec(0, 0), ArgSpec(0, 0), -1, 0 },
			{ S_PROCESSIF, "processIf", 3, a, ArgSpec(0, 0), ArgSpec(0, 0), -1, 0 },
			{ S_PROCESSUNTIL, "processUntil", 2, a, ArgSpec(0, 0), ArgSpec(0, 0), -1, 0 },
			{ S_TAKE, "takeEvent", 5, a, ArgSpec(0, 0), ArgSpec(0, 0), -1, 0 },
			{ S_PEEK, "peekEvent", 2, a, ArgSpec(0, 0), ArgSpec(0, 0), -1, 0 },
			{ S_EMPTY, "emptyQueue", 2, a, ArgSpec(0, 0), ArgSpec(0, 0), -1, 0 },
		};
	}
	g.levels.push_back(th);
	return g;
}
const Grammar & grammar(const std::string & prop)
{
	static std::map<std::string, Grammar> cache;
	auto it = cache.find(prop);
	if(it == cache.end()) it = cache.insert(std::make_pair(prop, makeGrammar(prop))).first;
	return it->second;
}

template <typename F>
void runThreads(const std::vector<const std::vector<Op> *> & scripts, int reps, F body)
{
	Barrier barrier((int)scripts.size());
	std::vector<std::thread> th;
	for(size_t t = 0; t < scripts.size(); ++t) {
		th.emplace_back([&, t]() {
			barrier.arrive();
			for(int r = 0; r < reps; ++r) for(const Op & op : *scripts[t]) body((int)t, op);
		});
	}
	for(auto & x : th) x.join();
}

Verdict runOnce(const Program & p, const std::string & prop)
{
	Verdict v;
	static const int c06[3] = { 0, 1, 4 }, c03[3] = { 2, 3, 5 };
	const int which = p.params.empty() ? 0 : ((p.params[0] % 3) + 3) % 3;
	const int subject = prop == "C03" ? c03[which] : c06[which];
	const int reps = p.params.size() > 1 ? std::max(1, std::min(p.params[1], 40)) : 8;
	std::vector<const std::vector<Op> *> scripts;
	for(const Op & op : p.ops) if(op.kind == T_THREAD && (int)scripts.size() < kMaxThreads && ! op.body.empty()) scripts.push_back(&op.body);
	if(scripts.size() < 2) { v.nontrivial = false; return v; }
	g_c.reset();
	const int before = g_reports.load();
	bool writers = false, consumers = false;
	for(auto * s : scripts) for(const Op & op : *s) {
		if(op.kind == S_ENQ || op.kind == S_ADDL || op.kind == S_REMOVEL) writers = true;
		if(op.kind == S_PROCESS || op.kind == S_PROCESSONE || op.kind == S_TAKE || op.kind == S_DISPATCH || op.kind == S_PROCESSIF || op.kind == S_PROCESSUNTIL) consumers = true;
	}
	std::string lost;
	if(subject == 0) {
		Queue q;
		for(int k = 0; k < 2; ++k) q.appendListener(k, [](int, const Payload & pl) { deliver(pl); });
		runThreads(scripts, reps, [&](int, const Op & op) { queueOp(q, op, std::integral_constant<int, 0>()); });
		while(q.process()) {}
		if(! q.emptyQueue()) lost = "queue not empty after the final drain";
	}
	else if(subject == 1) {
		HQueue q;
		for(int k = 0; k < 2; ++k) { q.appendListener(k, [](const Payload & pl) { deliver(pl); }); q.appendListener(k, [](const Payload & pl, int) { deliver(pl); }); }
		runThreads(scripts, reps, [&](int, const Op & op) { queueOp(q, op, std::integral_constant<int, 1>()); });
		while(q.process()) {}
		if(! q.emptyQueue()) lost = "queue not empty after the final drain";
	}
	else if(subject == 4) {
		QueueSpin q;
		for(int k = 0; k < 2; ++k) q.appendListener(k, [](int, const Payload & pl) { deliver(pl); });
		runThreads(scripts, reps, [&](int, const Op & op) { queueOp(q, op, std::integral_constant<int, 0>()); });
		while(q.process()) {}
		if(! q.emptyQueue()) lost = "queue not empty after the final drain";
	}
	else if(subject == 5) {
		DispSpin d;
		std::vector<std::vector<DispSpin::Handle> > mine(scripts.size());
		std::vector<std::vector<int> > mineKey(scripts.size());
		runThreads(scripts, reps, [&](int t, const Op & op) { dispOp(d, op, mine[(size_t)t], mineKey[(size_t)t]); });
	}
	else if(subject == 2) {
		Disp d;
		std::vector<std::vector<Disp::Handle> > mine(scripts.size());
		std::vector<std::vector<int> > mineKey(scripts.size());
		runThreads(scripts, reps, [&](int t, const Op & op) { dispOp(d, op, mine[(size_t)t], mineKey[(size_t)t]); });
	}
	else {
		DispMap d;
		std::vector<std::vector<DispMap::Handle> > mine(scripts.size());
		std::vector<std::vector<int> > mineKey(scripts.size());
		runThreads(scripts, reps, [&](int t, const Op & op) { dispOp(d, op, mine[(size_t)t], mineKey[(size_t)t]); });
	}
	if((subject <= 1 || subject == 4) && lost.empty()) {
		const int n = std::min(g_c.next.load(), kMaxEvents);
		for(int i = 0; i < n; ++i) {
			int c = g_c.delivered[i].load();
			if(c != 1) { lost = "event #" + std::to_string(i) + " was delivered " + std::to_string(c) + " times (real threads, std::mutex)"; break; }
		}
	}
	v.nontrivial = writers && consumers;
	if(writers && consumers) v.classes.push_back("writers_and_consumers_on_real_threads");
	v.trace = "subject " + std::to_string(subject) + ", " + std::to_string(scripts.size()) + " threads x " + std::to_string(reps) + " repetitions";
	if(g_reports.load() != before) {
		v.fail("ts.race", prop, "ThreadSanitizer reported a data race that is not one of the library's documented unlocked reads (report on stderr / in the run log): " + v.trace, "ts.race");
	}
	else if(! lost.empty()) v.fail("ts.lost", "C06", lost);
	return v;
}
// The OS owns the schedule here, so one execution of a saved program need not show the race again. When the driver
// replays a failure it asks for several rounds (VERIF_REPLAY_ROUNDS); a round that fails is a real report either way.
Verdict run(const Program & p, const std::string & prop)
{
	static const int rounds = []() { const char * e = getenv("VERIF_REPLAY_ROUNDS"); int n = e ? atoi(e) : 1; return n < 1 ? 1 : n; }();
	Verdict v;
	for(int i = 0; i < rounds; ++i) {
		v = runOnce(p, prop);
		if(! v.ok) break;
	}
	return v;
}
} // namespace

namespace vf {
const Harness g_harness = { "ts", &grammar, &run, &kindName, nullptr };
}
