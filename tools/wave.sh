#!/bin/bash
# usage: tools/wave.sh <wave-dir> <letter> <PROP>...   confirms each seed of a wave (tools/confirm_seed.sh) and runs the property's quick
# check against it (tools/try_seed.sh, KEEP_REPLAY=1). One line per step on stdout.
W=$1; L=$2; shift 2
for P in "$@"; do
  [ -f $W/$P/_seed/patch.diff ] || { echo "$P: no patch"; continue; }
  (cd $W/$P && git diff -- include > _seed/patch.diff)
  echo "== $P-$L confirm"; /verif/tools/confirm_seed.sh $P $W/$P $P-$L $(sed -n 's/^EXTRA_FLAGS: *//p' $W/$P/_seed/notes.txt | head -1) 2>&1 | tr '\n' ' '; echo
  echo "== $P-$L try"; KEEP_REPLAY=1 /verif/tools/try_seed.sh $P-$L $P 2>&1 | tail -3
done
