// Harness `config` (C20): the same generated programs are interpreted for a table of policy instantiations
// (Threading x Map x Callback x ArgumentPassing x key type) and compared with a built-in reference model.
// This file is C++11-clean: besides the sanitizer build that generates the programs (rapidcheck engine), the driver
// compiles it stand-alone (-DVF_CFG_STANDALONE) with g++ and clang++, -O0 and -O2, -std=c++11/14/17/20, and runs every
// build on the dumped programs with a given storage fill pattern.
#include <eventpp/eventqueue.h>
#include <eventpp/hetereventqueue.h>
#include <eventpp/utilities/scopedremover.h>
#include <eventpp/utilities/counterremover.h>

#include "common/program.h"

#include <algorithm>
#include <cstdio>
#include <cstring>
#include <unistd.h>
#include <chrono>
#include <list>
#include <map>
#include <string>
#include <unordered_map>
#include <vector>

namespace cfg {
using namespace vf;

enum Kind { G_ADD = 1, G_REMOVE, G_DISPATCH, G_ENQ, G_PROCESS, G_PROCESSONE, G_PROCESSIF, G_TAKE, G_PEEK, G_EMPTYQ, G_WAITFOR0, G_COPYQ, G_MOVEQ, G_CLEAR, G_HASANY, G_PROCESSUNTIL, G_MAX };
inline const char * kindName(int k)
{
	static const char * n[] = { "?", "addListener", "removeListener", "dispatch", "enqueue", "process", "processOne", "processIf", "takeEvent", "peekEvent", "emptyQueue",
		"waitFor0", "copyQueue", "moveQueue", "clearEvents", "hasAnyListener", "processUntil" };
	return (k > 0 && k < G_MAX) ? n[k] : "?";
}

const int kKeys = 3;
std::string * g_trace = nullptr;

inline void emit(const std::string & s) { if(g_trace) { *g_trace += s; *g_trace += ' '; } }
inline std::string num(long v) { char b[32]; snprintf(b, sizeof b, "%ld", v); return b; }

// ---- key types
template <typename K> struct KeyOf;
template <> struct KeyOf<int> {
	static int make(int i) { static const int v[kKeys] = { 0, -7, 2147483647 }; return v[i]; }
	static std::string show(int k) { return num(k); }
};
template <> struct KeyOf<std::string> {
	static std::string make(int i) {
		if(i == 0) return std::string();
		if(i == 1) return std::string("k");
		return std::string("a key that is too long for the small string buffer of std::string");
	}
	static std::string show(const std::string & k) { return "s" + num((long)k.size()); }
};

// ---- callback storage: std::function or this comparable functor
// a listener may be a "spawner": each time it runs (up to kMaxSpawn times per program) it appends a further listener to its
// own event. That listener must not run in the dispatch that added it, whatever the threading policy.
const int kMaxSpawn = 3;
const int kSpawnBase = 1000;
struct SpawnHook { void (*fn)(void * ctx, int keyIndex); void * ctx; int count; };
inline SpawnHook & spawnHook() { static SpawnHook h = { 0, 0, 0 }; return h; }
struct Cb
{
	int id;
	bool withKey;
	int spawnKey; // >= 0: spawner for that key index
	Cb() : id(-1), withKey(false), spawnKey(-1) {}
	Cb(int id_, bool wk, int spawnKey_ = -1) : id(id_), withKey(wk), spawnKey(spawnKey_) {}
	void spawn() const { SpawnHook & h = spawnHook(); if(spawnKey >= 0 && h.fn && h.count < kMaxSpawn) { ++h.count; h.fn(h.ctx, spawnKey); } }
	void operator() (int v) const { emit("L" + num(id) + "(" + num(v) + ")"); spawn(); }
	void operator() (int k, int v) const { emit("L" + num(id) + "(" + KeyOf<int>::show(k) + "," + num(v) + ")"); spawn(); }
	void operator() (const std::string & k, int v) const { emit("L" + num(id) + "(" + KeyOf<std::string>::show(k) + "," + num(v) + ")"); spawn(); }
	bool operator == (const Cb & o) const { return id == o.id; }
};

// ---- user-supplied map: reference-stable like the standard maps
template <typename K, typename V>
class FlatMap
{
public:
	typedef std::pair<K, V> value_type;
	typedef typename std::list<value_type>::iterator iterator;
	typedef typename std::list<value_type>::const_iterator const_iterator;
	iterator end() { return items.end(); }
	const_iterator end() const { return items.end(); }
	iterator find(const K & k) { for(iterator it = items.begin(); it != items.end(); ++it) if(it->first == k) return it; return items.end(); }
	const_iterator find(const K & k) const { for(const_iterator it = items.begin(); it != items.end(); ++it) if(it->first == k) return it; return items.end(); }
	V & operator [] (const K & k) { iterator it = find(k); if(it != items.end()) return it->second; items.push_back(value_type(k, V())); return items.back().second; }
	void swap(FlatMap & o) { items.swap(o.items); }
	friend void swap(FlatMap & a, FlatMap & b) { a.swap(b); }
private:
	std::list<value_type> items;
};

// ---- policies
struct TMulti { typedef eventpp::MultipleThreading Threading; enum { wait = 1 }; };
struct TSpin { typedef eventpp::GeneralThreading<eventpp::SpinLock> Threading; enum { wait = 0 }; }; // std::condition_variable needs std::mutex
struct TSingle { typedef eventpp::SingleThreading Threading; enum { wait = 0 }; };
struct MAuto { };
struct MStd { template <typename K, typename V> using Map = std::map<K, V>; };
struct MHash { template <typename K, typename V> using Map = std::unordered_map<K, V>; };
struct MFlat { template <typename K, typename V> using Map = FlatMap<K, V>; };
struct CFunc { };
struct CCb { typedef Cb Callback; };
struct AAuto { };
struct AInc { typedef eventpp::ArgumentPassingIncludeEvent ArgumentPassingMode; };
struct AExc { typedef eventpp::ArgumentPassingExcludeEvent ArgumentPassingMode; };
template <typename T, typename M, typename C, typename A> struct Pol : T, M, C, A { };


// ---- object sweep: "no result depends on what the object's memory held before construction", for every class of the library
// and every threading policy, not only for the queue the generated programs drive. Each object is constructed (default, from
// its target, by copy, by move) with placement new over storage pre-filled with the pattern, used once, and must behave as
// the same object built over zeroed storage would. A SpinLock that is found taken in this single-threaded code can never be
// released: the hook inside its spin loop turns the endless spin into an exception after a bounded number of rounds.
struct SpinStuck { };
inline long & spinRounds() { static long n = 0; return n; }
inline const char * & spinWhere() { static const char * w = ""; return w; }
inline int & spinFill() { static int f = 0; return f; }
// what to do with an endless spin: it cannot be unwound in general (the lock may be taken inside a noexcept member), so the
// stand-alone runner prints its MISMATCH line and leaves, the generating build writes the failing case and leaves
inline void (* & spinFatal())(const std::string &) { static void (*f)(const std::string &) = 0; return f; }
inline void spinWatch(const char * tag)
{
	if(tag[0] == 's' && tag[1] == 'p' && tag[2] == 'i' && tag[3] == 'n') {
		if(++spinRounds() > 20000) {
			spinRounds() = 0;
			std::string msg = std::string("object sweep [") + spinWhere() + "] fill " + num(spinFill())
				+ ": a SpinLock inside an object constructed over pre-filled storage is found taken although nothing ever locked it (endless spin in single-threaded code)";
			if(spinFatal()) spinFatal()(msg);
			throw SpinStuck();
		}
	}
}
struct SpinWatchScope
{
#ifdef EVENTPP_VERIF
	eventpp::verif::PointFunction old;
	SpinWatchScope() : old(eventpp::verif::pointFunction()) { spinRounds() = 0; eventpp::verif::pointFunction() = &spinWatch; }
	~SpinWatchScope() { eventpp::verif::pointFunction() = old; }
#endif
};

template <typename T>
struct Dirty
{
	typename std::aligned_storage<sizeof(T), alignof(T)>::type buf;
	T * p;
	explicit Dirty(unsigned char pattern) : p(0) { memset(&buf, pattern, sizeof(T)); }
	~Dirty() { if(p) p->~T(); }
private:
	Dirty(const Dirty &); Dirty & operator = (const Dirty &);
};

struct SweepCount { int * n; void operator() (int v) const { *n += v; } void operator() () const { *n += 1000; } };

template <typename TP>
struct SweepPol { typedef typename TP::Threading Threading; };

template <typename TP>
std::string sweepOne(unsigned char pat)
{
	typedef SweepPol<TP> P;
	typedef eventpp::CallbackList<void (int), P> CL;
	typedef eventpp::EventDispatcher<int, void (int), P> ED;
	typedef eventpp::EventQueue<int, void (int), P> EQ;
	typedef eventpp::HeterCallbackList<eventpp::HeterTuple<void (), void (int)>, P> HCL;
	typedef eventpp::HeterEventDispatcher<int, eventpp::HeterTuple<void (), void (int)>, P> HED;
	typedef eventpp::HeterEventQueue<int, eventpp::HeterTuple<void (), void (int)>, P> HEQ;
	std::string t;
	int n = 0;
	SweepCount cb = { &n };
	{ // the lock itself
		Dirty<typename TP::Threading::Mutex> m(pat); m.p = new (&m.buf) typename TP::Threading::Mutex();
		m.p->lock(); m.p->unlock(); m.p->lock(); m.p->unlock(); t += "mutex ";
	}
	{ // CallbackList: default, copy, move
		Dirty<CL> a(pat); a.p = new (&a.buf) CL();
		t += a.p->empty() ? "cl.empty=1 " : "cl.empty=0 ";
		typename CL::Handle h = a.p->append(cb); a.p->prepend(cb);
		n = 0; (*a.p)(3); t += "cl.call=" + num(n) + " ";
		Dirty<CL> b(pat); b.p = new (&b.buf) CL(static_cast<const CL &>(*a.p));
		n = 0; (*b.p)(5); t += "cl.copy.call=" + num(n) + " ";
		t += b.p->ownsHandle(h) ? "cl.copy.owns=1 " : "cl.copy.owns=0 ";
		Dirty<CL> c(pat); c.p = new (&c.buf) CL(std::move(*a.p));
		n = 0; (*c.p)(7); (*a.p)(100); t += "cl.move.call=" + num(n) + " ";
		t += c.p->remove(h) ? "cl.move.rm=1 " : "cl.move.rm=0 ";
		// a callback added to the new object during an invocation of it must not run in that invocation
		struct Adder { CL * l; SweepCount cb; void operator() (int) const { l->append(cb); } } adder = { c.p, cb };
		c.p->prepend(adder);
		n = 0; (*c.p)(1); t += "cl.move.nested=" + num(n) + " ";
		// ScopedRemover over dirty storage: default + set, from its target, by move
		{
			Dirty<eventpp::ScopedRemover<CL> > r1(pat); r1.p = new (&r1.buf) eventpp::ScopedRemover<CL>();
			r1.p->setCallbackList(*b.p); r1.p->append(cb); r1.p->prepend(cb);
			n = 0; (*b.p)(1); t += "sr.cl.set=" + num(n) + " ";
			Dirty<eventpp::ScopedRemover<CL> > r2(pat); r2.p = new (&r2.buf) eventpp::ScopedRemover<CL>(std::move(*r1.p));
			r2.p->append(cb);
			n = 0; (*b.p)(1); t += "sr.cl.moved=" + num(n) + " ";
			Dirty<eventpp::ScopedRemover<CL> > r3(pat); r3.p = new (&r3.buf) eventpp::ScopedRemover<CL>(*b.p);
			typename CL::Handle h3 = r3.p->append(cb);
			t += r3.p->remove(h3) ? "sr.cl.rm=1 " : "sr.cl.rm=0 ";
			r2.p->reset();
			n = 0; (*b.p)(1); t += "sr.cl.reset=" + num(n) + " ";
		}
	}
	{ // EventDispatcher
		Dirty<ED> a(pat); a.p = new (&a.buf) ED();
		t += a.p->hasAnyListener(2) ? "ed.any=1 " : "ed.any=0 ";
		a.p->appendListener(2, cb); a.p->appendListener(9, cb);
		Dirty<ED> b(pat); b.p = new (&b.buf) ED(static_cast<const ED &>(*a.p));
		Dirty<ED> c(pat); c.p = new (&c.buf) ED(std::move(*a.p));
		n = 0; b.p->dispatch(2, 4); c.p->dispatch(9, 10); t += "ed.call=" + num(n) + " ";
		{
			Dirty<eventpp::ScopedRemover<ED> > r1(pat); r1.p = new (&r1.buf) eventpp::ScopedRemover<ED>();
			r1.p->setDispatcher(*b.p); r1.p->appendListener(2, cb); r1.p->prependListener(3, cb);
			Dirty<eventpp::ScopedRemover<ED> > r2(pat); r2.p = new (&r2.buf) eventpp::ScopedRemover<ED>(std::move(*r1.p));
			typename ED::Handle h2 = r2.p->appendListener(3, cb);
			n = 0; b.p->dispatch(2, 1); b.p->dispatch(3, 10); t += "sr.ed.moved=" + num(n) + " ";
			t += r2.p->removeListener(3, h2) ? "sr.ed.rm=1 " : "sr.ed.rm=0 ";
			Dirty<eventpp::ScopedRemover<ED> > r3(pat); r3.p = new (&r3.buf) eventpp::ScopedRemover<ED>(*b.p);
			r3.p->appendListener(3, cb);
			r3.p->swap(*r2.p);
			r3.p->reset();
			n = 0; b.p->dispatch(2, 1); b.p->dispatch(3, 10); t += "sr.ed.reset=" + num(n) + " ";
		}
		{
			eventpp::CounterRemover<ED> cr(*c.p);
			cr.appendListener(9, cb, 2);
			n = 0; c.p->dispatch(9, 1); c.p->dispatch(9, 1); c.p->dispatch(9, 1); t += "cr.ed=" + num(n) + " ";
		}
	}
	{ // EventQueue: default construction (the programs cover copies and moves)
		Dirty<EQ> a(pat); a.p = new (&a.buf) EQ();
		t += a.p->emptyQueue() ? "eq.empty=1 " : "eq.empty=0 ";
		a.p->appendListener(1, cb); a.p->enqueue(1, 6);
		t += a.p->emptyQueue() ? "eq.empty=1 " : "eq.empty=0 ";
		{ typename EQ::DisableQueueNotify d(a.p); }
		n = 0; a.p->process(); t += "eq.call=" + num(n) + " ";
		t += a.p->emptyQueue() ? "eq.empty=1 " : "eq.empty=0 ";
	}
	{ // heterogeneous classes
		Dirty<HCL> a(pat); a.p = new (&a.buf) HCL();
		t += a.p->empty() ? "hcl.empty=1 " : "hcl.empty=0 ";
		a.p->append(cb); // SweepCount is callable with () -> bound to the first prototype
		struct OnlyInt { int * n; void operator() (int v) const { *n += v; } } oi = { &n };
		a.p->append(oi);
		Dirty<HCL> b(pat); b.p = new (&b.buf) HCL(static_cast<const HCL &>(*a.p));
		Dirty<HCL> c(pat); c.p = new (&c.buf) HCL(std::move(*a.p));
		n = 0; (*b.p)(); (*b.p)(5); (*c.p)(7); t += "hcl.call=" + num(n) + " ";
		{
			Dirty<eventpp::ScopedRemover<HCL> > r1(pat); r1.p = new (&r1.buf) eventpp::ScopedRemover<HCL>();
			r1.p->setCallbackList(*b.p); r1.p->append(oi);
			Dirty<eventpp::ScopedRemover<HCL> > r2(pat); r2.p = new (&r2.buf) eventpp::ScopedRemover<HCL>(std::move(*r1.p));
			r2.p->append(oi);
			n = 0; (*b.p)(1); t += "sr.hcl.moved=" + num(n) + " ";
			r2.p->reset();
			n = 0; (*b.p)(1); t += "sr.hcl.reset=" + num(n) + " ";
		}
		Dirty<HED> d(pat); d.p = new (&d.buf) HED();
		d.p->appendListener(4, oi);
		Dirty<HED> e(pat); e.p = new (&e.buf) HED(static_cast<const HED &>(*d.p));
		n = 0; e.p->dispatch(4, 8); e.p->dispatch(5, 8); t += "hed.call=" + num(n) + " ";
		{
			Dirty<eventpp::ScopedRemover<HED> > r1(pat); r1.p = new (&r1.buf) eventpp::ScopedRemover<HED>(*e.p);
			r1.p->appendListener(4, oi);
			Dirty<eventpp::ScopedRemover<HED> > r2(pat); r2.p = new (&r2.buf) eventpp::ScopedRemover<HED>(std::move(*r1.p));
			n = 0; e.p->dispatch(4, 1); t += "sr.hed.moved=" + num(n) + " ";
			r2.p->reset();
			n = 0; e.p->dispatch(4, 1); t += "sr.hed.reset=" + num(n) + " ";
		}
		Dirty<HEQ> q(pat); q.p = new (&q.buf) HEQ();
		t += q.p->emptyQueue() ? "heq.empty=1 " : "heq.empty=0 ";
		q.p->appendListener(4, oi); q.p->enqueue(4, 9); q.p->enqueue(4);
		Dirty<HEQ> q2(pat); q2.p = new (&q2.buf) HEQ(static_cast<const HEQ &>(*q.p));
		t += q2.p->emptyQueue() ? "heq.copy.empty=1 " : "heq.copy.empty=0 ";
		q2.p->enqueue(4, 2);
		n = 0; q2.p->process(); q.p->processOne(); t += "heq.call=" + num(n) + " ";
		Dirty<HEQ> q3(pat); q3.p = new (&q3.buf) HEQ(std::move(*q2.p));
		t += q3.p->emptyQueue() ? "heq.move.empty=1 " : "heq.move.empty=0 ";
	}
	return t;
}

inline const char * sweepExpected()
{
	return "mutex cl.empty=1 cl.call=6 cl.copy.call=10 cl.copy.owns=0 cl.move.call=14 cl.move.rm=1 cl.move.nested=1 "
		"sr.cl.set=4 sr.cl.moved=5 sr.cl.rm=1 sr.cl.reset=2 "
		"ed.any=0 ed.call=14 sr.ed.moved=22 sr.ed.rm=1 sr.ed.reset=11 cr.ed=5 "
		"eq.empty=1 eq.empty=0 eq.call=6 eq.empty=1 "
		"hcl.empty=1 hcl.call=1012 sr.hcl.moved=3 sr.hcl.reset=1 hed.call=8 sr.hed.moved=2 sr.hed.reset=1 "
		"heq.empty=1 heq.copy.empty=1 heq.call=11 heq.move.empty=1 ";
}

// every threading policy x the fill pattern; "" = all as expected
inline std::string checkObjects(int fill, long * executions = 0)
{
	static const unsigned char pat[4] = { 0x00, 0xff, 0xaa, 0x5c };
	SpinWatchScope watch; (void)watch;
	const char * names[3] = { "MultipleThreading", "SpinLock", "SingleThreading" };
	for(int i = 0; i < 3; ++i) {
		std::string got;
		spinWhere() = names[i]; spinFill() = fill;
		try {
			got = i == 0 ? sweepOne<TMulti>(pat[fill & 3]) : i == 1 ? sweepOne<TSpin>(pat[fill & 3]) : sweepOne<TSingle>(pat[fill & 3]);
		}
		catch(const SpinStuck &) {
			return std::string("object sweep [") + names[i] + "] fill " + num(fill) + ": a SpinLock of an object constructed over pre-filled storage is found taken although nothing ever locked it (endless spin)";
		}
		if(executions) ++*executions;
		if(got != sweepExpected()) {
			return std::string("object sweep [") + names[i] + "] fill " + num(fill) + ": \"" + got + "\" differs from the reference \"" + sweepExpected() + "\"";
		}
	}
	return std::string();
}

// reference model of one queue
struct MEvent { int key, value; };
struct MQueue
{
	std::vector<std::vector<int> > lists; // per key: listener ids in order
	std::vector<MEvent> pending;
	MQueue() : lists(kKeys) {}
};

struct ISubject
{
	virtual ~ISubject() {}
	virtual void run(const Program & p, int fill, std::string & out) = 0;
	virtual bool includeEvent() const = 0;
	virtual bool canWait() const = 0;
	virtual const char * name() const = 0;
};

// includeEvent: prototype void(K, int) and the key is the first argument; otherwise void(int) and the key is passed separately
template <typename K, typename P, bool Include, bool Wait>
struct SigOf;
template <typename K, typename P, bool Wait> struct SigOf<K, P, true, Wait> { typedef void Type(K, int); };
template <typename K, typename P, bool Wait> struct SigOf<K, P, false, Wait> { typedef void Type(int); };

template <typename K, typename P, bool Include>
struct Subject : ISubject
{
	typedef typename SigOf<K, P, Include, true>::Type Sig;
	typedef eventpp::EventQueue<K, Sig, P> Queue;
	typedef typename Queue::Handle Handle;
	const char * label;
	explicit Subject(const char * l) : label(l) {}
	bool includeEvent() const { return Include; }
	bool canWait() const { return P::wait != 0; }
	const char * name() const { return label; }

	struct Slot { typename std::aligned_storage<sizeof(Queue), alignof(Queue)>::type buf; Queue * q; Slot() : q(0) {} };

	static void doDispatch(Queue & q, const K & key, int value, int how, std::true_type) {
		if(how & 1) q.dispatch(K(key), value); else { K k(key); int v = value; q.dispatch(k, v); }
	}
	static void doDispatch(Queue & q, const K & key, int value, int how, std::false_type) {
		if(how & 1) q.dispatch(K(key), value); else { K k(key); int v = value; q.dispatch(k, v); }
	}
	static void doEnqueue(Queue & q, const K & key, int value, int how) {
		if(how & 1) q.enqueue(K(key), value); else { K k(key); int v = value; q.enqueue(k, v); }
	}
	static int valueOf(const typename Queue::QueuedEvent & qe, std::true_type) { return std::get<1>(qe.arguments); }
	static int valueOf(const typename Queue::QueuedEvent & qe, std::false_type) { return std::get<0>(qe.arguments); }

	struct PredParity { int bit; bool operator() (const K &, int v) const { return (v & 1) == bit; } bool operator() (int v) const { return (v & 1) == bit; } };

	template <bool W> typename std::enable_if<W, int>::type waitFor0(Queue & q) { return q.waitFor(std::chrono::milliseconds(0)) ? 1 : 0; }
	template <bool W> typename std::enable_if<! W, int>::type waitFor0(Queue &) { return -1; }

	void run(const Program & p, int fill, std::string & out) {
		g_trace = &out;
		static const unsigned char pat[4] = { 0x00, 0xff, 0xaa, 0x5c };
		Slot slots[3];
		std::vector<Handle> handles;
		std::vector<int> handleKey;
		int cur = 0;
		memset(&slots[0].buf, pat[fill & 3], sizeof(Queue));
		slots[0].q = new (&slots[0].buf) Queue();
		struct SpawnCtx { Slot * slots; int * cur; } spawnCtx = { slots, &cur };
		struct Spawn { static void fn(void * c, int keyIndex) {
			SpawnCtx * x = static_cast<SpawnCtx *>(c);
			x->slots[*x->cur].q->appendListener(KeyOf<K>::make(keyIndex), Cb(kSpawnBase + spawnHook().count, Include));
		} };
		spawnHook().fn = &Spawn::fn; spawnHook().ctx = &spawnCtx; spawnHook().count = 0;
		for(size_t oi = 0; oi < p.ops.size(); ++oi) {
			const Op & op = p.ops[oi];
			Queue & q = *slots[cur].q;
			const int ki = ((op.a % kKeys) + kKeys) % kKeys;
			const K key = KeyOf<K>::make(ki);
			switch(op.kind) {
			case G_ADD: {
				int id = (int)handles.size();
				Cb cb(id, Include, (((op.b % 6) + 6) % 6) >= 3 ? ki : -1);
				Handle before = handles.empty() ? Handle() : handles[(size_t)(((op.c % (int)handles.size()) + (int)handles.size()) % (int)handles.size())];
				int how = ((op.b % 3) + 3) % 3;
				if(how == 2 && ! handles.empty()) {
					int bi = ((op.c % (int)handles.size()) + (int)handles.size()) % (int)handles.size();
					if(handleKey[(size_t)bi] != ki) how = 0; // a handle of another event's list must not be passed
				}
				handles.push_back(how == 0 ? q.appendListener(key, cb) : how == 1 ? q.prependListener(key, cb) : q.insertListener(key, cb, before));
				handleKey.push_back(ki);
				break;
			}
			case G_REMOVE: {
				if(handles.empty()) break;
				int h = ((op.a % (int)handles.size()) + (int)handles.size()) % (int)handles.size();
				bool r = q.removeListener(KeyOf<K>::make(handleKey[(size_t)h]), handles[(size_t)h]);
				emit(std::string("rm=") + (r ? "1" : "0"));
				break;
			}
			case G_DISPATCH: emit("D"); doDispatch(q, key, op.b, op.c, std::integral_constant<bool, Include>()); break;
			case G_ENQ: doEnqueue(q, key, op.b, op.c); break;
			case G_PROCESS: emit(std::string("P=") + (q.process() ? "1" : "0")); break;
			case G_PROCESSONE: emit(std::string("P1=") + (q.processOne() ? "1" : "0")); break;
			case G_PROCESSIF: { PredParity pr; pr.bit = op.a & 1; emit(std::string("PI=") + (q.processIf(pr) ? "1" : "0")); break; }
			case G_PROCESSUNTIL: { PredParity pr; pr.bit = op.a & 1; emit(std::string("PU=") + (q.processUntil(pr) ? "1" : "0")); break; }
			case G_TAKE: {
				typename Queue::QueuedEvent qe;
				bool r = q.takeEvent(&qe);
				emit(r ? "T(" + KeyOf<K>::show(qe.event) + "," + num(valueOf(qe, std::integral_constant<bool, Include>())) + ")" : std::string("T-"));
				break;
			}
			case G_PEEK: {
				typename Queue::QueuedEvent qe;
				bool r = q.peekEvent(&qe);
				emit(r ? "K(" + KeyOf<K>::show(qe.event) + "," + num(valueOf(qe, std::integral_constant<bool, Include>())) + ")" : std::string("K-"));
				break;
			}
			case G_EMPTYQ: emit(std::string("E=") + (q.emptyQueue() ? "1" : "0")); break;
			case G_WAITFOR0: { int r = waitFor0<(P::wait != 0)>(q); if(r >= 0) emit("W=" + num(r)); break; }
			case G_CLEAR: q.clearEvents(); break;
			case G_HASANY: emit(std::string("A=") + (q.hasAnyListener(key) ? "1" : "0")); break;
			case G_COPYQ: case G_MOVEQ: {
				// the new object is built over storage filled with the pattern; the old one is destroyed; handles stay with the
				// nodes on a move and are harvested again after a copy (fresh nodes)
				int nxt = (cur + 1) % 3;
				memset(&slots[nxt].buf, pat[(fill + (int)oi) & 3], sizeof(Queue));
				if(op.kind == G_COPYQ) {
					slots[nxt].q = new (&slots[nxt].buf) Queue(static_cast<const Queue &>(q));
					std::vector<Handle> fresh(handles.size());
					for(int k2 = 0; k2 < kKeys; ++k2) {
						struct Harvest { std::vector<Handle> * fresh; void operator() (const Handle & h, const typename Queue::Callback & c) const {
							const Cb * p2 = target(c); if(p2 && p2->id >= 0 && (size_t)p2->id < fresh->size()) (*fresh)[(size_t)p2->id] = h; }
							static const Cb * target(const Cb & c) { return &c; }
							static const Cb * target(const std::function<Sig> & f) { return f.template target<Cb>(); } } hv;
						hv.fresh = &fresh;
						slots[nxt].q->forEach(KeyOf<K>::make(k2), hv);
					}
					handles = fresh;
				}
				else slots[nxt].q = new (&slots[nxt].buf) Queue(std::move(q));
				slots[cur].q->~Queue();
				slots[cur].q = 0;
				cur = nxt;
				// queried before any write: a copy / moved-to queue holds no events
				emit(std::string("E=") + (slots[cur].q->emptyQueue() ? "1" : "0"));
				{ int r = waitFor0<(P::wait != 0)>(*slots[cur].q); if(r >= 0) emit("W=" + num(r)); }
				break;
			}
			default: break;
			}
		}
		emit(std::string("end:P=") + (slots[cur].q->process() ? "1" : "0"));
		emit(std::string("E=") + (slots[cur].q->emptyQueue() ? "1" : "0"));
		spawnHook().fn = 0; spawnHook().ctx = 0;
		slots[cur].q->~Queue();
		g_trace = 0;
	}
};

// reference model: what every instantiation must print
template <typename K>
std::string model(const Program & p, bool include, bool canWait)
{
	std::string out;
	g_trace = &out;
	MQueue m;
	std::vector<int> handleKey;      // listener id -> key index
	std::vector<int> attached;       // 1 while in its list
	std::vector<int> spawner;        // listener id -> 1 if it appends a listener each time it runs
	int spawned = 0;
	for(size_t oi = 0; oi < p.ops.size(); ++oi) {
		const Op & op = p.ops[oi];
		const int ki = ((op.a % kKeys) + kKeys) % kKeys;
		const K key = KeyOf<K>::make(ki);
		struct Run {
			MQueue & mq; const std::vector<int> & spawner; int & spawned;
			void listeners(int k, int value, bool inc, const K & kv) {
				const size_t n = mq.lists[(size_t)k].size(); // listeners appended during this dispatch do not run in it
				for(size_t i = 0; i < n; ++i) {
					int id = mq.lists[(size_t)k][i];
					emit(inc ? "L" + num(id) + "(" + KeyOf<K>::show(kv) + "," + num(value) + ")" : "L" + num(id) + "(" + num(value) + ")");
					if(id < kSpawnBase && (size_t)id < spawner.size() && spawner[(size_t)id] && spawned < kMaxSpawn) { ++spawned; mq.lists[(size_t)k].push_back(kSpawnBase + spawned); }
				}
			}
		} run = { m, spawner, spawned };
		switch(op.kind) {
		case G_ADD: {
			int id = (int)handleKey.size();
			int how = ((op.b % 3) + 3) % 3;
			std::vector<int> & l = m.lists[(size_t)ki];
			if(how == 2 && ! handleKey.empty()) {
				int bi = ((op.c % (int)handleKey.size()) + (int)handleKey.size()) % (int)handleKey.size();
				if(handleKey[(size_t)bi] != ki) how = 0;
				else {
					std::vector<int>::iterator it = std::find(l.begin(), l.end(), bi);
					if(it != l.end()) l.insert(it, id); else l.push_back(id);
				}
			}
			else if(how == 2) how = 0;
			if(how == 0) l.push_back(id);
			else if(how == 1) l.insert(l.begin(), id);
			handleKey.push_back(ki);
			spawner.push_back((((op.b % 6) + 6) % 6) >= 3 ? 1 : 0);
			break;
		}
		case G_REMOVE: {
			if(handleKey.empty()) break;
			int h = ((op.a % (int)handleKey.size()) + (int)handleKey.size()) % (int)handleKey.size();
			std::vector<int> & l = m.lists[(size_t)handleKey[(size_t)h]];
			std::vector<int>::iterator it = std::find(l.begin(), l.end(), h);
			bool r = it != l.end();
			if(r) l.erase(it);
			emit(std::string("rm=") + (r ? "1" : "0"));
			break;
		}
		case G_DISPATCH: emit("D"); run.listeners(ki, op.b, include, key); break;
		case G_ENQ: { MEvent e; e.key = ki; e.value = op.b; m.pending.push_back(e); break; }
		case G_PROCESS: {
			std::vector<MEvent> batch; batch.swap(m.pending);
			for(size_t i = 0; i < batch.size(); ++i) run.listeners(batch[i].key, batch[i].value, include, KeyOf<K>::make(batch[i].key));
			emit(std::string("P=") + (batch.empty() ? "0" : "1"));
			break;
		}
		case G_PROCESSONE: {
			if(m.pending.empty()) { emit("P1=0"); break; }
			MEvent e = m.pending.front(); m.pending.erase(m.pending.begin());
			run.listeners(e.key, e.value, include, KeyOf<K>::make(e.key));
			emit("P1=1");
			break;
		}
		case G_PROCESSIF: {
			std::vector<MEvent> batch; batch.swap(m.pending);
			std::vector<MEvent> rest; int n = 0;
			for(size_t i = 0; i < batch.size(); ++i) {
				if((batch[i].value & 1) == (op.a & 1)) { run.listeners(batch[i].key, batch[i].value, include, KeyOf<K>::make(batch[i].key)); ++n; }
				else rest.push_back(batch[i]);
			}
			m.pending = rest;
			emit(std::string("PI=") + (n ? "1" : "0"));
			break;
		}
		case G_PROCESSUNTIL: {
			// dispatches from the front until the predicate holds for an event; that event and everything behind it stay queued
			std::vector<MEvent> batch; batch.swap(m.pending);
			size_t i = 0; int n = 0;
			for(; i < batch.size(); ++i) {
				if((batch[i].value & 1) == (op.a & 1)) break;
				run.listeners(batch[i].key, batch[i].value, include, KeyOf<K>::make(batch[i].key)); ++n;
			}
			std::vector<MEvent> rest(batch.begin() + (long)i, batch.end());
			rest.insert(rest.end(), m.pending.begin(), m.pending.end());
			m.pending = rest;
			emit(std::string("PU=") + (n ? "1" : "0"));
			break;
		}
		case G_TAKE: {
			if(m.pending.empty()) { emit("T-"); break; }
			MEvent e = m.pending.front(); m.pending.erase(m.pending.begin());
			emit("T(" + KeyOf<K>::show(KeyOf<K>::make(e.key)) + "," + num(e.value) + ")");
			break;
		}
		case G_PEEK: {
			if(m.pending.empty()) { emit("K-"); break; }
			emit("K(" + KeyOf<K>::show(KeyOf<K>::make(m.pending.front().key)) + "," + num(m.pending.front().value) + ")");
			break;
		}
		case G_EMPTYQ: emit(std::string("E=") + (m.pending.empty() ? "1" : "0")); break;
		case G_WAITFOR0: if(canWait) emit(std::string("W=") + (m.pending.empty() ? "0" : "1")); break;
		case G_CLEAR: m.pending.clear(); break;
		case G_HASANY: emit(std::string("A=") + (m.lists[(size_t)ki].empty() ? "0" : "1")); break;
		case G_COPYQ: case G_MOVEQ:
			m.pending.clear(); // a copy holds no pending events; the moved-from / copied-from object is destroyed by the program
			emit("E=1");
			if(canWait) emit("W=0");
			break;
		default: break;
		}
	}
	{
		std::vector<MEvent> batch; batch.swap(m.pending);
		for(size_t i = 0; i < batch.size(); ++i) {
			const size_t n = m.lists[(size_t)batch[i].key].size();
			for(size_t j = 0; j < n; ++j) {
				int id = m.lists[(size_t)batch[i].key][j];
				K kv = KeyOf<K>::make(batch[i].key);
				emit(include ? "L" + num(id) + "(" + KeyOf<K>::show(kv) + "," + num(batch[i].value) + ")" : "L" + num(id) + "(" + num(batch[i].value) + ")");
				if(id < kSpawnBase && (size_t)id < spawner.size() && spawner[(size_t)id] && spawned < kMaxSpawn) { ++spawned; m.lists[(size_t)batch[i].key].push_back(kSpawnBase + spawned); }
			}
		}
		emit(std::string("end:P=") + (batch.empty() ? "0" : "1"));
		emit("E=1");
	}
	g_trace = 0;
	return out;
}

struct Instance { ISubject * subject; bool stringKey; };

inline std::vector<Instance> & instances()
{
	// never destroyed: the subjects stay reachable at exit (a destroyed vector would turn them into leaks for LeakSanitizer)
	static std::vector<Instance> & v = *new std::vector<Instance>();
	if(v.empty()) {
		Instance i;
		i.stringKey = false;
		i.subject = new Subject<int, Pol<TMulti, MAuto, CFunc, AAuto>, true>("int/include/auto|MultipleThreading|auto-map|std::function"); v.push_back(i);
		i.subject = new Subject<int, Pol<TSingle, MStd, CCb, AExc>, false>("int/exclude|SingleThreading|std::map|Cb"); v.push_back(i);
		i.subject = new Subject<int, Pol<TSpin, MHash, CFunc, AInc>, true>("int/include|SpinLock|unordered_map|std::function"); v.push_back(i);
		i.subject = new Subject<int, Pol<TMulti, MFlat, CFunc, AExc>, false>("int/exclude|MultipleThreading|user-map|std::function"); v.push_back(i);
		i.stringKey = true;
		i.subject = new Subject<std::string, Pol<TMulti, MAuto, CFunc, AAuto>, true>("string/include/auto|MultipleThreading|auto-map|std::function"); v.push_back(i);
		i.subject = new Subject<std::string, Pol<TSingle, MFlat, CCb, AExc>, false>("string/exclude|SingleThreading|user-map|Cb"); v.push_back(i);
		i.subject = new Subject<std::string, Pol<TSpin, MStd, CCb, AInc>, true>("string/include|SpinLock|std::map|Cb"); v.push_back(i);
		i.subject = new Subject<std::string, Pol<TMulti, MHash, CFunc, AExc>, false>("string/exclude|MultipleThreading|unordered_map|std::function"); v.push_back(i);
	}
	return v;
}

// runs one program under every instantiation; returns a description of the first disagreement ("" = none)
inline std::string checkProgram(const Program & p, int fill, bool & movableKeyByValue, bool & dirtyQueried)
{
	std::vector<Instance> & inst = instances();
	movableKeyByValue = false; dirtyQueried = false;
	for(size_t oi = 0; oi < p.ops.size(); ++oi) {
		if((p.ops[oi].kind == G_DISPATCH || p.ops[oi].kind == G_ENQ) && (p.ops[oi].c & 1)) movableKeyByValue = true;
		if((p.ops[oi].kind == G_COPYQ || p.ops[oi].kind == G_MOVEQ) && (fill & 3)) dirtyQueried = true;
	}
	for(size_t i = 0; i < inst.size(); ++i) {
		std::string got;
		inst[i].subject->run(p, fill, got);
		std::string want = inst[i].stringKey ? model<std::string>(p, inst[i].subject->includeEvent(), inst[i].subject->canWait())
			: model<int>(p, inst[i].subject->includeEvent(), inst[i].subject->canWait());
		if(got != want) {
			return std::string("instantiation [") + inst[i].subject->name() + "] fill " + num(fill) + ": trace \"" + got + "\" differs from the reference \"" + want + "\"";
		}
	}
	return std::string();
}

} // namespace cfg

#ifdef VF_CFG_STANDALONE
// usage: runner <fill> <programs-file>...   (programs separated by lines "---")
int main(int argc, char ** argv)
{
	if(argc < 3) return 2;
	int fill = atoi(argv[1]);
	long n = 0, bad = 0;
	{
		struct Fatal { static void fn(const std::string & msg) { printf("MISMATCH objects %s\nPROGRAM-BEGIN\nPROGRAM-END\nRUNNER programs=1 mismatches=1\n", msg.c_str()); fflush(stdout); _exit(1); } };
		cfg::spinFatal() = &Fatal::fn;
		long ex = 0;
		std::string d = cfg::checkObjects(fill, &ex);
		n += ex;
		if(! d.empty()) { ++bad; printf("MISMATCH objects %s\n", d.c_str()); printf("PROGRAM-BEGIN\nPROGRAM-END\n"); }
	}
	for(int a = 2; a < argc; ++a) {
		std::ifstream f(argv[a]);
		std::string line, text;
		while(true) {
			bool more = (bool)std::getline(f, line);
			if(! more || line == "---") {
				if(! text.empty()) {
					vf::Program p;
					if(vf::fromText(text, p)) {
						bool a1, a2;
						std::string d = cfg::checkProgram(p, fill, a1, a2);
						++n;
						if(! d.empty()) { ++bad; printf("MISMATCH program=%ld file=%s %s\n", n, argv[a], d.c_str()); printf("PROGRAM-BEGIN\n%sPROGRAM-END\n", text.c_str()); }
					}
					text.clear();
				}
				if(! more) break;
			}
			else { text += line; text += '\n'; }
		}
	}
	printf("RUNNER programs=%ld mismatches=%ld\n", n, bad);
	return bad ? 1 : 0;
}
#else
#include "common/harness.h"
namespace {
using namespace vf;
Grammar makeGrammar()
{
	Grammar g;
	g.params = { ArgSpec(0, 3) };
	g.maxDepth = 1;
	g.maxTotalOps = 60;
	Level top;
	top.minOps = 1;
	top.maxOps = 40;
	const ArgSpec key(0, 2), val(-50, 50), h(0, 20);
	top.kinds = {
		{ cfg::G_ADD, "addListener", 14, key, ArgSpec(0, 5), h, -1, 0 }, // b % 3: append / prepend / insert; b >= 3: the listener is a spawner
		{ cfg::G_REMOVE, "removeListener", 4, h, ArgSpec(0, 0), ArgSpec(0, 0), -1, 0 },
		{ cfg::G_DISPATCH, "dispatch", 10, key, val, ArgSpec(0, 1), -1, 0 },
		{ cfg::G_ENQ, "enqueue", 16, key, val, ArgSpec(0, 1), -1, 0 },
		{ cfg::G_PROCESS, "process", 4, ArgSpec(0, 0), ArgSpec(0, 0), ArgSpec(0, 0), -1, 0 },
		{ cfg::G_PROCESSONE, "processOne", 4, ArgSpec(0, 0), ArgSpec(0, 0), ArgSpec(0, 0), -1, 0 },
		{ cfg::G_PROCESSIF, "processIf", 4, ArgSpec(0, 1), ArgSpec(0, 0), ArgSpec(0, 0), -1, 0 },
		{ cfg::G_PROCESSUNTIL, "processUntil", 4, ArgSpec(0, 1), ArgSpec(0, 0), ArgSpec(0, 0), -1, 0 },
		{ cfg::G_TAKE, "takeEvent", 3, ArgSpec(0, 0), ArgSpec(0, 0), ArgSpec(0, 0), -1, 0 },
		{ cfg::G_PEEK, "peekEvent", 2, ArgSpec(0, 0), ArgSpec(0, 0), ArgSpec(0, 0), -1, 0 },
		{ cfg::G_EMPTYQ, "emptyQueue", 3, ArgSpec(0, 0), ArgSpec(0, 0), ArgSpec(0, 0), -1, 0 },
		{ cfg::G_WAITFOR0, "waitFor0", 2, ArgSpec(0, 0), ArgSpec(0, 0), ArgSpec(0, 0), -1, 0 },
		{ cfg::G_COPYQ, "copyQueue", 4, ArgSpec(0, 0), ArgSpec(0, 0), ArgSpec(0, 0), -1, 0 },
		{ cfg::G_MOVEQ, "moveQueue", 4, ArgSpec(0, 0), ArgSpec(0, 0), ArgSpec(0, 0), -1, 0 },
		{ cfg::G_CLEAR, "clearEvents", 1, ArgSpec(0, 0), ArgSpec(0, 0), ArgSpec(0, 0), -1, 0 },
		{ cfg::G_HASANY, "hasAnyListener", 2, key, ArgSpec(0, 0), ArgSpec(0, 0), -1, 0 },
	};
	g.levels.push_back(top);
	return g;
}
const Grammar & grammar(const std::string &) { static Grammar g = makeGrammar(); return g; }

long g_dumped = 0;
FILE * g_dump = nullptr;

Verdict run(const Program & p, const std::string &)
{
	Verdict v;
	const int fill = p.params.empty() ? 0 : p.params[0];
	bool a1 = false, a2 = false;
	std::string d = cfg::checkProgram(p, fill, a1, a2);
	{
		// once per fill pattern and process: every other class of the library constructed over pre-filled storage
		static int state[4] = { 0, 0, 0, 0 };
		static std::string cached[4];
		struct Fatal { static void fn(const std::string & msg) { dieWithFailure("config.objects", msg, EXIT_DEADLOCK); } };
		cfg::spinFatal() = &Fatal::fn;
		if(! state[fill & 3]) { state[fill & 3] = 1; cached[fill & 3] = cfg::checkObjects(fill); v.classes.push_back("object_sweep_all_classes_over_prefilled_storage"); }
		if(! cached[fill & 3].empty()) { v.fail("config.objects", "C20", cached[fill & 3]); return v; }
	}
	if(a1) v.classes.push_back("temporary_key_or_argument");
	if(a2) v.classes.push_back("object_over_nonzero_storage_queried_before_write");
	v.nontrivial = a1 || a2;
	if(! d.empty()) v.fail("config.trace", "C20", d);
	// the first programs of the run are dumped for the stand-alone builds (other compilers / standards / optimisation levels)
	if(v.ok && g_dumped < 400) {
		if(! g_dump) { std::string path = config().outDir + "/programs." + config().tag + ".txt"; g_dump = fopen(path.c_str(), "w"); }
		if(g_dump) { fputs(toText(p).c_str(), g_dump); fputs("---\n", g_dump); fflush(g_dump); ++g_dumped; }
	}
	return v;
}
} // namespace
namespace vf {
const Harness g_harness = { "config", &grammar, &run, &cfg::kindName, nullptr };
}
#endif
