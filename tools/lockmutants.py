#!/usr/bin/env python3
"""Lock-removal changes used to measure the sensitivity of the concurrent checks (C03, C06).
usage: tools/lockmutants.py NAME   (applies the change to /repo's working tree; undo with git -C /repo checkout -- .)
       tools/lockmutants.py --list
Each change deletes exactly one lock_guard; the hook line that follows it stays."""
import sys, re
R = '/repo/include/eventpp/'
Q, H, D, C = R + 'eventqueue.h', R + 'hetereventqueue.h', R + 'eventdispatcher.h', R + 'callbacklist.h'

def nth_lock_before(path, hook, nth=0):
    s = open(path).read()
    pos = [m.start() for m in re.finditer(re.escape('EVENTPP_VERIF_POINT("%s")' % hook), s)]
    p = pos[nth]
    j = s.rfind('std::lock_guard<Mutex>', 0, p)
    e = s.index(';', j) + 1
    assert p - e < 8 and '\n' in s[e:p], (hook, s[j:p])
    s = s[:j] + '/* lock removed */' + s[e:]
    open(path, 'w').write(s)

M = {
    'clear_swap_nolock': (Q, 'cs.queue.swap', 0),
    'clear_recycle_nolock': (Q, 'cs.queue.recycle', 0),
    'process_swap_nolock': (Q, 'cs.queue.swap', 1),
    'process_recycle_nolock': (Q, 'cs.queue.recycle', 1),
    'processone_recycle_nolock': (Q, 'cs.queue.recycle', 2),
    'processif_swap_nolock': (Q, 'cs.queue.swap', 2),
    'processif_recycle_idle_nolock': (Q, 'cs.queue.recycle.idle', 0),
    'processone_take_nolock': (Q, 'cs.queue.takeone', 0),
    'takeevent_take_nolock': (Q, 'cs.queue.takeone', 1),
    'enqueue_splice_nolock': (Q, 'cs.queue.enqueue.splice', 0),
    'enqueue_free_nolock': (Q, 'cs.queue.enqueue.free', 0),
    'processif_requeue_nolock': (Q, 'cs.queue.requeue', 0),
    'peek_nolock': (Q, 'cs.queue.peek', 0),
    'hq_swap_nolock': (H, 'cs.hqueue.swap', 0),
    'hq_recycle_nolock': (H, 'cs.hqueue.recycle', 0),
    'hq_enqueue_splice_nolock': (H, 'cs.hqueue.enqueue.splice', 0),
    'hq_enqueue_free_nolock': (H, 'cs.hqueue.enqueue.free', 0),
    'disp_append_nolock': (D, 'cs.disp.append', 0),
    'disp_find_nolock': (D, 'cs.disp.find', 0),
    'cbl_append_nolock': (C, 'cs.cbl.append', 0),
    'cbl_prepend_nolock': (C, 'cs.cbl.prepend', 0),
    'cbl_insert_nolock': (C, 'cs.cbl.insert', 0),
    'cbl_remove_nolock': (C, 'cs.cbl.remove', 0),
    'cbl_traverse_head_nolock': (C, 'cs.cbl.traverse.head', 0),
    'cbl_traverse_step_nolock': (C, 'cs.cbl.traverse.step', 0),
}
if __name__ == '__main__':
    if sys.argv[1] == '--list':
        print('\n'.join(M))
    else:
        nth_lock_before(*M[sys.argv[1]])
