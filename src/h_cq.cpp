// Harness `cq`: EventQueue / HeterEventQueue under the harness-owned scheduler.
// C06 (no event lost or duplicated, per-producer/consumer FIFO, no deadlock), C07 (no missed wake-up,
// DisableQueueNotify only defers), C11 (never reported empty while an event is pending or in dispatch).
#include <eventpp/eventqueue.h>
#include <eventpp/hetereventqueue.h>
#include <eventpp/utilities/orderedqueuelist.h>

#include "common/harness.h"
#include "common/ledger.h"
#include "common/sched.h"
#include "common/leak.h"

#include <memory>
#include <sstream>
#include <set>

namespace {
using namespace vf;

enum Kind {
	T_THREAD = 1, T_PRE_ENQ,
	C_ENQ = 10, C_DQN_BEGIN, C_DQN_END, C_PROCESS, C_PROCESSONE, C_PROCESSIF, C_PROCESSUNTIL, C_TAKE, C_PEEK, C_CLEAR, C_EMPTYQ,
	C_WAIT_DRAIN, C_WAITFOR_DRAIN, C_MAX
};
const char * kindName(int k)
{
	switch(k) {
	case T_THREAD: return "thread"; case T_PRE_ENQ: return "preEnqueue";
	case C_ENQ: return "enqueue"; case C_DQN_BEGIN: return "dqnBegin"; case C_DQN_END: return "dqnEnd"; case C_PROCESS: return "process";
	case C_PROCESSONE: return "processOne"; case C_PROCESSIF: return "processIf"; case C_PROCESSUNTIL: return "processUntil"; case C_TAKE: return "takeEvent";
	case C_PEEK: return "peekEvent"; case C_CLEAR: return "clearEvents"; case C_EMPTYQ: return "emptyQueue"; case C_WAIT_DRAIN: return "wait+drain";
	case C_WAITFOR_DRAIN: return "waitFor+drain";
	default: return "?";
	}
}

const int kMaxThreads = 6;

struct Got { int serial = -1; int value = 0; bool intact = false; };

struct Run;
Run * g_run = nullptr;
// feedback for the schedule enumerator: what the last scripted run looked like
long g_lastSteps = 0;
int g_lastEffective = 0, g_lastThreads = 0;
void onListenerEnter(int serial, int value, bool intact);
void onListenerExit(int serial);
bool onPredicate(int serial);

struct Listener
{
	void operator() (int, const Tracked & t) const { onListenerEnter(t.serial(), t.value, t.intact()); schedPoint("listener.body"); onListenerExit(t.serial()); }
	void operator() (const Tracked & t) const { onListenerEnter(t.serial(), t.value, t.intact()); schedPoint("listener.body"); onListenerExit(t.serial()); }
	void operator() (const Tracked & t, int) const { onListenerEnter(t.serial(), t.value, t.intact()); schedPoint("listener.body"); onListenerExit(t.serial()); }
};
struct Pred
{
	bool operator() (int, const Tracked & t) const { return onPredicate(t.serial()); }
	bool operator() (const Tracked & t) const { return onPredicate(t.serial()); }
};
struct PredHeter // only callable with the first prototype of the heterogeneous queue
{
	bool operator() (const Tracked & t) const { return onPredicate(t.serial()); }
};

struct ICQ
{
	virtual ~ICQ() {}
	virtual bool full() const = 0; // has DisableQueueNotify, processUntil, peek, take
	virtual void enqueue(int key, int serial, int value) = 0;
	virtual bool process() = 0;
	virtual bool processOne() = 0;
	virtual bool processIf() = 0;
	virtual bool processUntil() = 0;
	virtual bool take(Got & g, bool dispatchIt) = 0;
	virtual bool peek(Got & g) = 0;
	virtual void clear() = 0;
	virtual bool emptyQ() = 0;
	virtual void wait() = 0;
	virtual bool waitFor(bool zero) = 0;
	virtual void dqnBegin(int tid) = 0;
	virtual void dqnEnd(int tid, bool byException) = 0; // byException: the scope is left by a throw, the object dies during unwinding
};

template <typename Threading_>
struct PolQ { using Threading = Threading_; };

// OrderedQueueList whose comparator ranks every event of this harness the same (keys 0 and 1): the order a stable sort has
// to keep is then the enqueue order, which is what the per-producer FIFO oracle demands
struct CmpSameRank
{
	template <typename T> bool operator() (const T & a, const T & b) const { return a.event / 2 < b.event / 2; }
};
template <typename Threading_>
struct PolQOrdered
{
	using Threading = Threading_;
	template <typename Item> using QueueList = eventpp::OrderedQueueList<Item, CmpSameRank>;
};

template <typename Threading_, typename Policies_ = PolQ<Threading_> >
struct HomoQ : ICQ
{
	using Queue = eventpp::EventQueue<int, void (int, const Tracked &), Policies_>;
	using DQN = typename Queue::DisableQueueNotify;
	Queue q;
	std::vector<std::unique_ptr<DQN> > dqn[kMaxThreads + 1];
	HomoQ() { for(int k = 0; k < 2; ++k) q.appendListener(k, Listener()); }
	bool full() const override { return true; }
	void enqueue(int key, int serial, int value) override { q.enqueue(key, Tracked(serial, value)); }
	bool process() override { return q.process(); }
	bool processOne() override { return q.processOne(); }
	bool processIf() override { return q.processIf(Pred()); }
	bool processUntil() override { return q.processUntil(Pred()); }
	bool take(Got & g, bool dispatchIt) override {
		typename Queue::QueuedEvent qe;
		if(! q.takeEvent(&qe)) return false;
		const Tracked & t = std::get<1>(qe.arguments);
		g.serial = t.serial(); g.value = t.value; g.intact = t.intact();
		if(dispatchIt) q.dispatch(qe);
		return true;
	}
	bool peek(Got & g) override {
		typename Queue::QueuedEvent qe;
		if(! q.peekEvent(&qe)) return false;
		const Tracked & t = std::get<1>(qe.arguments);
		g.serial = t.serial(); g.value = t.value; g.intact = t.intact();
		return true;
	}
	void clear() override { q.clearEvents(); }
	bool emptyQ() override { return q.emptyQueue(); }
	void wait() override { q.wait(); }
	bool waitFor(bool zero) override { return q.waitFor(std::chrono::milliseconds(zero ? 0 : 10)); }
	void dqnBegin(int tid) override { dqn[tid].emplace_back(new DQN(&q)); }
	void dqnEnd(int tid, bool byException) override {
		if(dqn[tid].empty()) return;
		if(! byException) { dqn[tid].pop_back(); return; }
		struct Pop { std::vector<std::unique_ptr<DQN> > & v; ~Pop() { v.pop_back(); } };
		try { Pop pop{ dqn[tid] }; throw 0; } catch(int) {}
	}
};

template <typename Threading_>
struct HeterQ : ICQ
{
	using Queue = eventpp::HeterEventQueue<int, eventpp::HeterTuple<void (const Tracked &), void (const Tracked &, int)>, PolQ<Threading_> >;
	Queue q;
	HeterQ() {
		for(int k = 0; k < 2; ++k) {
			q.appendListener(k, [](const Tracked & t) { Listener()(t); });
			q.appendListener(k, [](const Tracked & t, int n) { Listener()(t, n); });
		}
	}
	bool full() const override { return false; }
	void enqueue(int key, int serial, int value) override {
		if(value & 1) q.enqueue(key, Tracked(serial, value), 7);
		else q.enqueue(key, Tracked(serial, value));
	}
	bool process() override { return q.process(); }
	bool processOne() override { return q.processOne(); }
	bool processIf() override { return q.processIf(PredHeter()); }
	bool processUntil() override { return false; }
	bool take(Got &, bool) override { return false; }
	bool peek(Got &) override { return false; }
	void clear() override { q.clearEvents(); }
	bool emptyQ() override { return q.emptyQueue(); }
	void wait() override { q.wait(); }
	bool waitFor(bool zero) override { return q.waitFor(std::chrono::milliseconds(zero ? 0 : 10)); }
	void dqnBegin(int) override {}
	void dqnEnd(int, bool) override {}
};

// ---------------------------------------------------------------- history

struct EventRec
{
	int serial = 0, producer = 0, seq = 0, value = 0;
	long enqBegin = -1, enqEnd = -1;
	bool heterSecond = false;
	struct Use { int thread; int call; long t0, t1; long callBegin, callEnd; };
	std::vector<Use> dispatches, takes;
	int clearedByThread = -1; long clearCallBegin = -1, clearCallEnd = -1;
};

struct CallRec
{
	int thread, kind;
	long t0 = -1, t1 = -1;
	bool result = false;
	int dispatched = 0;
	int takenSerial = -1;
	bool timeoutFiredDuring = false;
	bool zeroTimeout = false;
};

struct DqnRec { long ctorBegin, ctorEnd, dtorBegin, dtorEnd; };

struct Run
{
	const Program & prog;
	std::string prop;
	Verdict & v;
	std::unique_ptr<ICQ> q;
	std::unique_ptr<Sched> sched;
	std::vector<EventRec> events;     // index = serial - 1
	std::vector<CallRec> calls;
	std::vector<DqnRec> dqns;
	std::vector<int> curCall;         // per thread: index of the call in progress
	std::vector<int> inClear;         // per thread
	std::vector<int> producedSeq;
	std::vector<std::vector<size_t> > openDqn; // per thread: indices into dqns
	std::vector<int> predKind, predParam, predCount;
	bool failed = false;
	bool anyDecline = false;
	bool knownFifoPutBack = false;
	bool emptyDuringPredicateCall = false;
	bool heter = false, orderedList = false;
	int dqnAlive = 0;
	std::ostringstream log;
	long sentinels = 0;

	Run(const Program & p, const std::string & pr, Verdict & v_) : prog(p), prop(pr), v(v_) {}

	void fail(const std::string & rule, const std::string & pr, const std::string & msg) {
		if(failed) return;
		failed = true;
		std::string s = log.str();
		if(s.size() > 900) s = "..." + s.substr(s.size() - 900);
		v.fail(rule, pr, msg + " | log: " + s);
	}
	long now() const { return sched ? sched->now() : 0; }
	int me() const { return sched ? sched->self() : 0; }
	EventRec & ev(int serial) { return events[(size_t)serial - 1]; }

	int beginCall(int kind) {
		CallRec c; c.thread = me(); c.kind = kind; c.t0 = now();
		calls.push_back(c);
		curCall[me()] = (int)calls.size() - 1;
		return (int)calls.size() - 1;
	}
	void endCall(int idx, bool result) {
		calls[idx].t1 = now();
		calls[idx].result = result;
		curCall[calls[idx].thread] = -1;
		// the events this call consumed learn when the call ended
		for(EventRec & e : events) {
			for(auto & u : e.dispatches) if(u.call == idx) u.callEnd = calls[idx].t1;
			for(auto & u : e.takes) if(u.call == idx) u.callEnd = calls[idx].t1;
			if(e.clearCallBegin == calls[idx].t0 && e.clearedByThread == calls[idx].thread && e.clearCallEnd < 0) e.clearCallEnd = calls[idx].t1;
		}
	}

	void doEnqueue(int key, int value) {
		EventRec e;
		e.serial = (int)events.size() + 1;
		e.producer = me();
		e.seq = producedSeq[me()]++;
		e.value = value;
		e.enqBegin = now();
		events.push_back(e);
		const int serial = e.serial;
		log << " t" << me() << ":enq#" << serial;
		q->enqueue(key, serial, value);
		ev(serial).enqEnd = now();
	}

	void listenerEnter(int serial, int value, bool intact) {
		if(serial < 1 || serial > (int)events.size()) { fail("cq.dispatch.unknown", "C06", "listener received an event that was never enqueued (serial " + std::to_string(serial) + ")"); return; }
		EventRec & e = ev(serial);
		if(! intact || value != e.value) fail("cq.dispatch.payload", "C06", "event #" + std::to_string(serial) + " reached its listener with a damaged payload");
		EventRec::Use u; u.thread = me(); u.call = curCall[me()]; u.t0 = now(); u.t1 = -1;
		u.callBegin = u.call >= 0 ? calls[u.call].t0 : -1; u.callEnd = -1;
		e.dispatches.push_back(u);
		if(u.call >= 0) ++calls[u.call].dispatched;
		log << " t" << me() << ":disp#" << serial;
		// a listener that enqueues a follow-up event while the processing call that runs it is in progress (the "very common
		// pattern" of chained events): that enqueue, too, must wake a waiter
		if(value == 777 && ! failed) { followUps = true; doEnqueue(serial & 1, 778); }
	}
	bool followUps = false;
	void listenerExit(int serial) {
		if(serial < 1 || serial > (int)events.size()) return;
		for(auto & u : ev(serial).dispatches) if(u.thread == me() && u.t1 < 0) u.t1 = now();
	}
	bool predicate(int serial) {
		int t = me();
		++predCount[t];
		bool r;
		switch(predKind[t] % 4) {
		case 0: r = true; break;
		case 1: r = false; break;
		case 2: r = (serial & 1) == (predParam[t] & 1); break;
		default: r = (predCount[t] & 1) == 0; break;
		}
		if(! r) anyDecline = true;
		return r;
	}
	static void copyPoint() { schedPoint("payload.copy"); }
	static void dtorObserver(int id) {
		if(! g_run || id < kPayloadBase || id >= kPayloadBase + 1000000) return;
		Run & r = *g_run;
		int t = r.me();
		if(t >= 0 && t < (int)r.inClear.size() && r.inClear[t]) {
			int serial = id - kPayloadBase;
			if(serial >= 1 && serial <= (int)r.events.size()) {
				EventRec & e = r.ev(serial);
				e.clearedByThread = t;
				e.clearCallBegin = r.calls[r.curCall[t]].t0;
			}
		}
	}

	// ---- one thread script

	void drain(int how) {
		for(int guard = 0; guard < 64; ++guard) {
			int c = beginCall(how ? C_PROCESSONE : C_PROCESS);
			bool r = how ? q->processOne() : q->process();
			endCall(c, r);
			if(! r) break;
		}
	}

	void threadBody(const std::vector<Op> & ops) {
		const int t = me();
		for(const Op & op : ops) {
			if(failed) break;
			switch(op.kind) {
			case C_ENQ: doEnqueue(op.a & 1, (op.b < 0 ? -op.b : op.b) % 1000); break;
			case C_DQN_BEGIN:
				if(q->full() && openDqn[t].size() < 2) {
					DqnRec d; d.ctorBegin = now(); d.dtorBegin = d.dtorEnd = -1;
					q->dqnBegin(t);
					d.ctorEnd = now();
					dqns.push_back(d);
					openDqn[t].push_back(dqns.size() - 1);
					++dqnAlive;
					log << " t" << t << ":dqn+";
				}
				break;
			case C_DQN_END:
				closeDqn(t, op.a == 2);
				break;
			case C_PROCESS: case C_PROCESSONE: case C_PROCESSIF: case C_PROCESSUNTIL: {
				if(op.kind == C_PROCESSUNTIL && ! q->full()) break;
				predKind[t] = op.a; predParam[t] = op.b; predCount[t] = 0;
				// a heterogeneous processIf only looks at the events of its predicate's prototype: it may legitimately
				// let a newer event overtake an older one of another prototype, exactly like a declining predicate
				if(heter && op.kind == C_PROCESSIF) anyDecline = true;
				int c = beginCall(op.kind);
				bool r = op.kind == C_PROCESS ? q->process() : op.kind == C_PROCESSONE ? q->processOne() : op.kind == C_PROCESSIF ? q->processIf() : q->processUntil();
				endCall(c, r);
				log << " t" << t << ":" << kindName(op.kind) << "=" << r;
				break;
			}
			case C_TAKE: {
				if(! q->full()) break;
				int c = beginCall(C_TAKE);
				Got g;
				bool r = q->take(g, false);
				if(r) {
					if(g.serial < 1 || g.serial > (int)events.size() || ! g.intact || g.value != ev(g.serial).value) fail("cq.take.payload", "C06", "takeEvent handed out a damaged or unknown event");
					else {
						EventRec::Use u; u.thread = t; u.call = c; u.t0 = calls[c].t0; u.t1 = now(); u.callBegin = calls[c].t0; u.callEnd = -1;
						ev(g.serial).takes.push_back(u);
						calls[c].takenSerial = g.serial;
					}
				}
				endCall(c, r);
				log << " t" << t << ":take=" << r << "#" << g.serial;
				break;
			}
			case C_PEEK: {
				if(! q->full()) break;
				int c = beginCall(C_PEEK);
				Got g;
				bool r = q->peek(g);
				endCall(c, r);
				if(r) {
					if(g.serial < 1 || g.serial > (int)events.size() || ! g.intact || g.value != ev(g.serial).value) fail("cq.peek.payload", "C06", "peekEvent returned a damaged or unknown event");
					else if(ev(g.serial).enqBegin > calls[c].t1) fail("cq.peek.future", "C06", "peekEvent returned an event whose enqueue had not begun");
				}
				break;
			}
			case C_CLEAR: {
				int c = beginCall(C_CLEAR);
				inClear[t] = 1;
				q->clear();
				inClear[t] = 0;
				endCall(c, true);
				log << " t" << t << ":clear";
				break;
			}
			case C_EMPTYQ: {
				int c = beginCall(C_EMPTYQ);
				bool r = q->emptyQ();
				endCall(c, r);
				log << " t" << t << ":empty=" << r;
				break;
			}
			case C_WAIT_DRAIN: {
				if(! openDqn[t].empty()) break; // a waiter holding its own DisableQueueNotify would block itself
				int c = beginCall(C_WAIT_DRAIN);
				log << " t" << t << ":wait";
				q->wait();
				endCall(c, true);
				log << " t" << t << ":woke";
				drain(op.a & 1);
				break;
			}
			case C_WAITFOR_DRAIN: {
				if(! openDqn[t].empty()) break;
				int c = beginCall(C_WAITFOR_DRAIN);
				calls[c].zeroTimeout = (op.b % 3) == 0;
				long before = sched->timeoutsOf(t);
				bool r = q->waitFor(calls[c].zeroTimeout);
				calls[c].timeoutFiredDuring = sched->timeoutsOf(t) > before;
				endCall(c, r);
				log << " t" << t << ":waitFor=" << r;
				if(r) drain(op.a & 1);
				break;
			}
			default: break;
			}
		}
		while(! openDqn[t].empty()) closeDqn(t);
	}
	void closeDqn(int t, bool byException = false) {
		if(openDqn[t].empty()) return;
		size_t i = openDqn[t].back();
		openDqn[t].pop_back();
		dqns[i].dtorBegin = now();
		q->dqnEnd(t, byException);
		dqns[i].dtorEnd = now();
		--dqnAlive;
		log << " t" << t << (byException ? ":dqn-(throw)" : ":dqn-");
	}

	// ---- oracles

	bool consumed(const EventRec & e) const { return ! e.dispatches.empty() || ! e.takes.empty() || e.clearedByThread >= 0; }

	long pendingNow() const {
		long n = 0;
		for(const EventRec & e : events) if(e.enqEnd >= 0 && ! consumed(e)) ++n;
		return n;
	}

	// quiescent state reached with threads parked: lost wake-up or legitimate block (C07)
	bool handleQuiescent() {
		std::vector<int> parked;
		for(size_t i = 1; i < sched->threadCount(); ++i) {
			ThreadState st = sched->stateOf((int)i);
			if(st == TS_BLOCK_CV) parked.push_back((int)i);
			else if(st != TS_DONE) {
				fail("cq.deadlock", "C06,C07,C11", "threads are blocked and none can run");
				return false;
			}
		}
		if(parked.empty()) return false;
		long pend = pendingNow();
		if(pend > 0 && dqnAlive == 0) {
			fail("cq.lostwakeup", "C07", std::to_string(parked.size()) + " thread(s) stay blocked in wait/waitFor although " + std::to_string(pend) + " event(s) are pending, no DisableQueueNotify is alive and no other thread can run");
			// keep going: the sentinel below lets the parked threads finish, so that the case can return and shrink
		}
		// legitimate block: release with a sentinel event; it must wake somebody (checked at the next quiescent state)
		++sentinels;
		log << " t0:sentinel";
		doEnqueue(0, 999);
		return true;
	}

	void checkHistory() {
		// C06: exactly one outcome per event
		bool haveClear = false;
		for(const CallRec & c : calls) if(c.kind == C_CLEAR) haveClear = true;
		for(const EventRec & e : events) {
			if(e.enqEnd < 0) continue;
			size_t n = e.dispatches.size() + e.takes.size();
			if(n > 1) { fail("cq.duplicate", "C06", "event #" + std::to_string(e.serial) + " was dispatched/taken " + std::to_string(n) + " times"); return; }
			if(n == 1 && e.clearedByThread >= 0) { fail("cq.duplicate", "C06", "event #" + std::to_string(e.serial) + " was both consumed and discarded by clearEvents"); return; }
			if(n == 0 && e.clearedByThread < 0) { fail("cq.lost", "C06", "event #" + std::to_string(e.serial) + " was enqueued but never dispatched, taken or cleared (final drain included)"); return; }
			(void)haveClear;
		}
		// results
		for(size_t i = 0; i < calls.size(); ++i) {
			const CallRec & c = calls[i];
			if(c.kind == C_PROCESS || c.kind == C_PROCESSONE || c.kind == C_PROCESSIF || c.kind == C_PROCESSUNTIL) {
				if(c.result != (c.dispatched > 0)) { fail("cq.result", "C06", std::string(kindName(c.kind)) + " on thread " + std::to_string(c.thread) + " returned " + std::to_string(c.result) + " but dispatched " + std::to_string(c.dispatched) + " event(s)"); return; }
				if(c.kind == C_PROCESSONE && c.dispatched > 1) { fail("cq.processOne.many", "C06", "processOne dispatched more than one event"); return; }
			}
		}
		// FIFO per (producer, consumer thread). An inversion has two possible causes, told apart here:
		//  - the older event was, while the newer one was consumed, possibly inside the private batch of a processIf /
		//    processUntil call on another thread that did not dispatch it and put it back afterwards. The library does
		//    that by design (the whole queue is swapped out, leftovers are spliced back at the front later), the
		//    statement of C06 does not allow it: a genuine defect that has no small repair, listed in KNOWN_FINDINGS.txt
		//    under the signature cq.fifo.putback. It is counted, and reported as a failure only when the driver asks for
		//    known findings (VERIF_REPORT_KNOWN, set for the replay stage), so that the search goes on behind it;
		//  - anything else is a violation (cq.fifo).
		{
			static const bool reportKnown = getenv("VERIF_REPORT_KNOWN") != nullptr;
			for(size_t t = 0; t < sched->threadCount(); ++t) {
				// consumption order on thread t: by time of the dispatch entry / take
				struct Seen { long when; const EventRec * e; int call; };
				std::vector<Seen> seen;
				for(const EventRec & e : events) {
					for(const auto & u : e.dispatches) if(u.thread == (int)t) seen.push_back(Seen { u.t0, &e, u.call });
					for(const auto & u : e.takes) if(u.thread == (int)t) seen.push_back(Seen { u.t1, &e, u.call });
				}
				std::sort(seen.begin(), seen.end(), [](const Seen & a, const Seen & b) { return a.when < b.when || (a.when == b.when && a.e->serial < b.e->serial); });
				struct Last { int seq; long when; int call; };
				std::map<int, Last> last; // producer -> newest event consumed so far
				for(const Seen & s : seen) {
					const EventRec & older = *s.e;
					auto it = last.find(older.producer);
					if(it != last.end() && it->second.seq > older.seq) {
						// the consumer itself skipped the older event: its own processIf dispatched the newer one and not the older
						// one (declined, or of a prototype the predicate is not callable with). That is the caller's choice, not an inversion.
						const int cNew = it->second.call;
						if(cNew >= 0 && cNew < (int)calls.size() && calls[(size_t)cNew].kind == C_PROCESSIF && s.call != cNew) continue;
						const long whenNewer = it->second.when;
						bool heldElsewhere = false;
						for(const CallRec & c : calls) {
							if(c.kind != C_PROCESSIF && c.kind != C_PROCESSUNTIL) continue;
							if(c.thread == (int)t) continue;
							bool dispatchedIt = false;
							for(const auto & u : older.dispatches) if(u.thread == c.thread && u.t0 >= c.t0 && (c.t1 < 0 || u.t0 <= c.t1)) dispatchedIt = true;
							if(dispatchedIt) continue;
							if(c.t0 <= whenNewer && (c.t1 < 0 || c.t1 >= older.enqBegin)) heldElsewhere = true;
						}
						const std::string what = "thread " + std::to_string(t) + " consumed event #" + std::to_string(older.serial) + " of producer " + std::to_string(older.producer) + " after a later event of the same producer";
						if(! heldElsewhere) { fail("cq.fifo", "C06", what); return; }
						knownFifoPutBack = true;
						if(reportKnown) { fail("cq.fifo.putback", "C06", what + " (the older event was inside the batch of a processIf / processUntil call of another thread, which put it back afterwards)"); return; }
					}
					if(it == last.end() || it->second.seq < older.seq) last[older.producer] = Last { older.seq, s.when, s.call };
				}
			}
		}
		// C11: an observation of "empty"
		for(const CallRec & c : calls) {
			bool sawEmpty = false;
			if(c.kind == C_EMPTYQ && c.result) sawEmpty = true;
			if(c.kind == C_WAITFOR_DRAIN && ! c.result) {
				bool dqnOverlap = false;
				for(const DqnRec & d : dqns) if(d.ctorBegin <= c.t1 && (d.dtorEnd < 0 || d.dtorEnd >= c.t0)) dqnOverlap = true;
				if(! dqnOverlap) sawEmpty = true;
				if(! c.zeroTimeout && ! c.timeoutFiredDuring) { fail("cq.waitfor.false", "C07", "waitFor returned false although its timeout never fired"); return; }
			}
			if(! sawEmpty) continue;
			if(c.kind == C_EMPTYQ) {
				// C11 quantifies over threads running process / processOne / takeEvent / clearEvents. While a processIf /
				// processUntil call is in progress emptyQueue() can read the list while the events are in that call's batch
				// and the counter after the call has put them back and ended: outside the quantifier, not judged.
				// (waitFor evaluates its predicate under queueListMutex, which the put-back needs: it is judged in full.)
				bool predicateCall = false;
				for(const CallRec & o : calls) if((o.kind == C_PROCESSIF || o.kind == C_PROCESSUNTIL) && o.t0 <= c.t1 && (o.t1 < 0 || o.t1 >= c.t0)) predicateCall = true;
				if(predicateCall) { emptyDuringPredicateCall = true; continue; }
			}
			for(const EventRec & e : events) {
				if(e.enqEnd < 0 || e.enqEnd >= c.t0) continue; // enqueue had not completed before the observation began
				bool done = false;
				for(const auto & u : e.dispatches) if(u.t1 >= 0 && u.t1 <= c.t1) done = true;
				for(const auto & u : e.takes) if(u.callBegin <= c.t1) done = true;
				if(e.clearedByThread >= 0 && e.clearCallBegin <= c.t1) done = true;
				if(! done) {
					fail("cq.empty.lie", "C11", std::string(c.kind == C_EMPTYQ ? "emptyQueue() returned true" : "waitFor timed out") + " on thread " + std::to_string(c.thread) + " during steps [" + std::to_string(c.t0) + "," + std::to_string(c.t1) + "] although event #" + std::to_string(e.serial) + " (enqueue completed at step " + std::to_string(e.enqEnd) + ") was still pending or in dispatch");
					return;
				}
			}
		}
		// C07: a wait returns only after a non-empty queue with notification enabled was observable
		for(const CallRec & c : calls) {
			const bool returnedTrue = (c.kind == C_WAIT_DRAIN) || (c.kind == C_WAITFOR_DRAIN && c.result);
			if(! returnedTrue || c.t1 < 0) continue;
			bool ok = false;
			for(long s = c.t0; s <= c.t1 && ! ok; ++s) {
				int certain = 0;
				for(const DqnRec & d : dqns) if(d.ctorEnd <= s && (d.dtorBegin < 0 || s <= d.dtorBegin)) ++certain;
				if(certain) continue;
				// emptyQueue() is (legitimately) false while any processing call is in progress, even one that
				// found nothing to take: such a step counts as "queue observed non-empty"
				for(const CallRec & o : calls) {
					if((o.kind == C_PROCESS || o.kind == C_PROCESSONE || o.kind == C_PROCESSIF || o.kind == C_PROCESSUNTIL) && o.t0 <= s && (o.t1 < 0 || s <= o.t1)) { ok = true; break; }
				}
				if(ok) break;
				for(const EventRec & e : events) {
					if(e.enqBegin > s) continue;
					long end = -1; // conservative end of "pending or in dispatch": the end of the consuming call
					bool open = false;
					if(! consumed(e)) open = true;
					for(const auto & u : e.dispatches) { if(u.callEnd < 0) open = true; else end = std::max(end, u.callEnd); }
					for(const auto & u : e.takes) { if(u.callEnd < 0) open = true; else end = std::max(end, u.callEnd); }
					if(e.clearedByThread >= 0) { if(e.clearCallEnd < 0) open = true; else end = std::max(end, e.clearCallEnd); }
					if(open || s <= end) { ok = true; break; }
				}
			}
			if(! ok) {
				fail("cq.wait.spurious", "C07", std::string(kindName(c.kind)) + " on thread " + std::to_string(c.thread) + " returned during steps [" + std::to_string(c.t0) + "," + std::to_string(c.t1) + "] although at no step in that interval could the queue be seen non-empty with notification enabled");
				return;
			}
		}
	}

	// one queue per case: sections over queueList are group 1, over freeList group 2, over the listener map group 3
	static int queueCsGroup(const char * tag) {
		const char * t = nullptr;
		if(strncmp(tag, "cs.queue.", 9) == 0) t = tag + 9;
		else if(strncmp(tag, "cs.hqueue.", 10) == 0) t = tag + 10;
		else if(strncmp(tag, "cs.disp.", 8) == 0) return 3;
		if(t == nullptr) return 0;
		if(strncmp(t, "recycle", 7) == 0 || strncmp(t, "enqueue.free", 12) == 0) return 2;
		return 1;
	}

	void dropSched() {
		g_lastSteps = sched->now();
		g_lastEffective = sched->scriptEffective;
		g_lastThreads = (int)sched->threadCount() - 1;
		sched.reset();
	}

	void run() {
		const int cfg = prog.params.size() > 0 ? ((prog.params[0] % 4) + 4) % 4 : 0;
		const int strategy = prog.params.size() > 1 ? ((prog.params[1] % 3) + 3) % 3 : 0;
		const bool spurious = prog.params.size() > 2 && (prog.params[2] & 1);
		// params[3] == 77: scripted schedule (bounded-exhaustive exploration); the schedule bytes are then records of
		// (step high byte, step low byte, thread) instead of random choices
		const bool scripted = prog.params.size() > 3 && prog.params[3] == 77;
		Program choiceProg = prog;
		if(scripted) choiceProg.sched.clear();
		ChoiceSource choice(scripted ? choiceProg : prog, fnv1a(toText(prog)));
		installSchedHook();
		dtorHook() = &Run::dtorObserver;
		// params[3] == 1 (new generated cases) or a scripted run: every copy / move of a payload is a scheduling point.
		// Saved replays with three parameters keep their meaning.
		copyHook() = (scripted || (prog.params.size() > 3 && prog.params[3] == 1)) ? &Run::copyPoint : nullptr;
		sched.reset(new Sched(choice, scripted ? 3 : strategy, scripted ? false : spurious));
		if(scripted) sched->scriptHighFirst = prog.params.size() > 2 && (prog.params[2] & 1);
		if(scripted) for(size_t i = 0; i + 3 <= prog.sched.size(); i += 3) {
			sched->script.push_back(std::make_pair((long)prog.sched[i] * 256 + prog.sched[i + 1], (int)prog.sched[i + 2]));
		}
		sched->csGroupOf = &queueCsGroup;
		switch(cfg) {
		case 0: q.reset(new HomoQ<SchedThreading>()); break;
		case 1: q.reset(new HomoQ<SchedSpinThreading>()); break;
		case 3: q.reset(new HomoQ<SchedThreading, PolQOrdered<SchedThreading> >()); orderedList = true; break;
		default: q.reset(new HeterQ<SchedThreading>()); heter = true; sched->noPreemptPrefix = "cs.cbl."; break;
		}
		std::vector<const std::vector<Op> *> scripts;
		for(const Op & op : prog.ops) if(op.kind == T_THREAD && scripts.size() < (size_t)kMaxThreads) scripts.push_back(&op.body);
		const size_t nt = scripts.size() + 1;
		curCall.assign(nt, -1); inClear.assign(nt, 0); producedSeq.assign(nt, 0); openDqn.assign(nt, std::vector<size_t>());
		predKind.assign(nt, 0); predParam.assign(nt, 0); predCount.assign(nt, 0);
		for(const Op & op : prog.ops) if(op.kind == T_PRE_ENQ) doEnqueue(op.a & 1, (op.b < 0 ? -op.b : op.b) % 1000);
		for(const std::vector<Op> * s : scripts) sched->spawn([this, s]() { threadBody(*s); });
		for(int guard = 0; guard < 64; ++guard) {
			if(sched->joinAll()) break;
			if(! handleQuiescent()) break;
		}
		if(! sched->allOthersDone()) {
			// threads are still blocked inside the library: the process cannot unwind them
			if(! failed) fail("cq.stuck", "C06,C07", "threads did not finish after the waiters were released");
			dieWithFailure(v.rule, v.msg, EXIT_DEADLOCK);
		}
		if(failed) {
			q.reset();
			dropSched();
			dtorHook() = nullptr; copyHook() = nullptr;
			return;
		}
		// final drain by the controller
		for(int guard = 0; guard < 64; ++guard) {
			int c = beginCall(C_PROCESS);
			bool r = q->process();
			endCall(c, r);
			if(! r) break;
		}
		if(! q->emptyQ()) fail("cq.final.empty", "C06,C11", "queue not empty after the producers finished and the queue was drained");
		if(! failed && ! sched->csOverlap.empty()) fail("cq.cs.overlap", "C06", "two threads inside critical sections over the same list at once: " + sched->csOverlap);
		checkHistory();
		v.subEvaluations = 1;
		classes();
		q.reset();
		dropSched();
		dtorHook() = nullptr; copyHook() = nullptr;
		if(! failed) {
			if(ledger().isFlagged()) fail("ledger.flag", "C06,C08", ledger().message());
			else if(ledger().totalLive() != 0) fail("ledger.leak", "C06,C08", std::to_string(ledger().totalLive()) + " payload object(s) alive after the queue was destroyed");
		}
	}

	bool overlapPC = false, overlapCC = false, csPreempt = false, unPreempt = false, waiterParkedAtEnq = false, emptyDuringDispatch = false;
	void classes() {
		csPreempt = sched->csPreemptions > 0;
		unPreempt = sched->unlockedPreemptions > 0;
		auto isCons = [](int k) { return k == C_PROCESS || k == C_PROCESSONE || k == C_PROCESSIF || k == C_PROCESSUNTIL || k == C_TAKE || k == C_CLEAR; };
		for(size_t i = 0; i < calls.size(); ++i) {
			if(! isCons(calls[i].kind)) continue;
			for(const EventRec & e : events) if(e.producer != calls[i].thread && e.enqBegin <= calls[i].t1 && e.enqEnd >= calls[i].t0) overlapPC = true;
			for(size_t j = i + 1; j < calls.size(); ++j) {
				if(isCons(calls[j].kind) && calls[j].thread != calls[i].thread && calls[j].t0 <= calls[i].t1 && calls[i].t0 <= calls[j].t1) overlapCC = true;
			}
		}
		for(const CallRec & c : calls) {
			if(c.kind == C_WAIT_DRAIN || c.kind == C_WAITFOR_DRAIN) {
				for(const EventRec & e : events) if(e.enqEnd >= c.t0 && e.enqEnd <= c.t1 && e.producer != c.thread) waiterParkedAtEnq = true;
				for(const DqnRec & d : dqns) if(d.dtorEnd >= c.t0 && d.dtorEnd <= c.t1) waiterParkedAtEnq = true;
			}
			if(c.kind == C_EMPTYQ || c.kind == C_WAITFOR_DRAIN) {
				for(const EventRec & e : events) for(const auto & u : e.dispatches) if(u.thread != c.thread && u.callBegin <= c.t1 && (u.callEnd < 0 || u.callEnd >= c.t0)) emptyDuringDispatch = true;
			}
		}
	}
};

void onListenerEnter(int serial, int value, bool intact) { if(g_run) g_run->listenerEnter(serial, value, intact); }
void onListenerExit(int serial) { if(g_run) g_run->listenerExit(serial); }
bool onPredicate(int serial) { return g_run ? g_run->predicate(serial) : true; }

// ---------------------------------------------------------------- grammar

Grammar makeGrammar(const std::string & prop)
{
	Grammar g;
	g.params = { ArgSpec(0, 3), ArgSpec(0, 2), ArgSpec(0, 1), ArgSpec(0, 1) };
	g.maxSched = 96;
	g.maxDepth = 2;
	g.maxTotalOps = 40;
	Level top;
	top.minOps = 2;
	top.maxOps = 5;
	top.kinds = {
		{ T_THREAD, "thread", 10, ArgSpec(0, 0), ArgSpec(0, 0), ArgSpec(0, 0), 1, 5 },
		{ T_PRE_ENQ, "preEnqueue", 1, ArgSpec(0, 1), ArgSpec(0, 999), ArgSpec(0, 0), -1, 0 },
	};
	g.levels.push_back(top);
	Level th;
	const ArgSpec key(0, 1), val(0, 999, 777, 777, 15); // 777: the listener of this event enqueues one follow-up event while it runs
	if(prop == "C07") {
		th.kinds = {
			{ C_ENQ, "enqueue", 12, key, val, ArgSpec(0, 0), -1, 0 },
			{ C_DQN_BEGIN, "dqnBegin", 6, ArgSpec(0, 0), ArgSpec(0, 0), ArgSpec(0, 0), -1, 0 },
			{ C_DQN_END, "dqnEnd", 5, ArgSpec(0, 2), ArgSpec(0, 0), ArgSpec(0, 0), -1, 0 }, // a == 2: the scope is left by an exception
			{ C_WAIT_DRAIN, "wait+drain", 10, ArgSpec(0, 1), ArgSpec(0, 0), ArgSpec(0, 0), -1, 0 },
			{ C_WAITFOR_DRAIN, "waitFor+drain", 4, ArgSpec(0, 1), ArgSpec(0, 5), ArgSpec(0, 0), -1, 0 },
			{ C_PROCESS, "process", 2, ArgSpec(0, 0), ArgSpec(0, 0), ArgSpec(0, 0), -1, 0 },
			{ C_PROCESSONE, "processOne", 2, ArgSpec(0, 0), ArgSpec(0, 0), ArgSpec(0, 0), -1, 0 },
			// processing threads also use the predicate forms: a call that takes events out and puts them back must never
			// make the queue look empty to a waiter in between
			{ C_PROCESSIF, "processIf", 2, ArgSpec(0, 3), ArgSpec(0, 1), ArgSpec(0, 0), -1, 0 },
			{ C_PROCESSUNTIL, "processUntil", 1, ArgSpec(0, 3), ArgSpec(0, 1), ArgSpec(0, 0), -1, 0 },
		};
	}
	else if(prop == "C11") {
		th.kinds = {
			{ C_ENQ, "enqueue", 10, key, val, ArgSpec(0, 0), -1, 0 },
			{ C_EMPTYQ, "emptyQueue", 10, ArgSpec(0, 0), ArgSpec(0, 0), ArgSpec(0, 0), -1, 0 },
			{ C_WAITFOR_DRAIN, "waitFor+drain", 3, ArgSpec(0, 1), ArgSpec(0, 5), ArgSpec(0, 0), -1, 0 },
			{ C_PROCESS, "process", 6, ArgSpec(0, 0), ArgSpec(0, 0), ArgSpec(0, 0), -1, 0 },
			{ C_PROCESSONE, "processOne", 6, ArgSpec(0, 0), ArgSpec(0, 0), ArgSpec(0, 0), -1, 0 },
			{ C_TAKE, "takeEvent", 2, ArgSpec(0, 0), ArgSpec(0, 0), ArgSpec(0, 0), -1, 0 },
			{ C_CLEAR, "clearEvents", 1, ArgSpec(0, 0), ArgSpec(0, 0), ArgSpec(0, 0), -1, 0 },
			// processIf / processUntil are generated too, with one restriction in the oracle: an emptyQueue() == true that
			// overlaps such a call is not judged (C11 quantifies over threads running process/processOne/takeEvent/
			// clearEvents; a declining processIf puts events back after an observer may have seen the list empty, and the
			// observer then reads the counter after the call ended - observed on the unchanged tree, see DESIGN.md).
			// waitFor observations are judged in full: its predicate runs under the mutex the put-back needs.
			{ C_PROCESSIF, "processIf", 2, ArgSpec(0, 3), ArgSpec(0, 1), ArgSpec(0, 0), -1, 0 },
			{ C_PROCESSUNTIL, "processUntil", 2, ArgSpec(0, 3), ArgSpec(0, 1), ArgSpec(0, 0), -1, 0 },
		};
	}
	else {
		th.kinds = {
			{ C_ENQ, "enqueue", 14, key, val, ArgSpec(0, 0), -1, 0 },
			{ C_DQN_BEGIN, "dqnBegin", 1, ArgSpec(0, 0), ArgSpec(0, 0), ArgSpec(0, 0), -1, 0 },
			{ C_DQN_END, "dqnEnd", 1, ArgSpec(0, 2), ArgSpec(0, 0), ArgSpec(0, 0), -1, 0 },
			{ C_PROCESS, "process", 6, ArgSpec(0, 0), ArgSpec(0, 0), ArgSpec(0, 0), -1, 0 },
			{ C_PROCESSONE, "processOne", 7, ArgSpec(0, 0), ArgSpec(0, 0), ArgSpec(0, 0), -1, 0 },
			{ C_PROCESSIF, "processIf", 3, ArgSpec(0, 3), ArgSpec(0, 1), ArgSpec(0, 0), -1, 0 },
			{ C_PROCESSUNTIL, "processUntil", 2, ArgSpec(0, 3), ArgSpec(0, 1), ArgSpec(0, 0), -1, 0 },
			{ C_TAKE, "takeEvent", 5, ArgSpec(0, 0), ArgSpec(0, 0), ArgSpec(0, 0), -1, 0 },
			{ C_PEEK, "peekEvent", 2, ArgSpec(0, 0), ArgSpec(0, 0), ArgSpec(0, 0), -1, 0 },
			{ C_CLEAR, "clearEvents", 1, ArgSpec(0, 0), ArgSpec(0, 0), ArgSpec(0, 0), -1, 0 },
			{ C_EMPTYQ, "emptyQueue", 1, ArgSpec(0, 0), ArgSpec(0, 0), ArgSpec(0, 0), -1, 0 },
		};
	}
	if(prop == "C08") {
		// object lifetimes across threads: every payload copy / move is a scheduling point, more reads of queued arguments
		g.params[3] = ArgSpec(1, 1);
		for(KindSpec & k : th.kinds) if(k.kind == C_PEEK || k.kind == C_TAKE || k.kind == C_CLEAR) k.weight += 4;
	}
	g.levels.push_back(th);
	return g;
}

const Grammar & grammar(const std::string & prop)
{
	static std::map<std::string, Grammar> cache;
	auto it = cache.find(prop);
	if(it == cache.end()) it = cache.insert(std::make_pair(prop, makeGrammar(prop))).first;
	return it->second;
}

Verdict run(const Program & p, const std::string & prop)
{
	Verdict v;
	v.trace.reserve(4096);
	v.classes.reserve(16);
	ledger().reset();
	faults().reset();
	{
		Run r(p, prop, v);
		g_run = &r;
		r.run();
		g_run = nullptr;
		auto cls = [&](bool b, const char * n) { if(b) v.classes.push_back(n); };
		cls(r.overlapPC, "producer_overlaps_consumer");
		cls(r.overlapCC, "two_consumers_overlap");
		cls(r.csPreempt, "preempted_inside_critical_section");
		cls(r.unPreempt, "preempted_at_unlocked_access");
		cls(r.waiterParkedAtEnq, "waiter_active_when_enqueue_or_dqn_end_completed");
		cls(r.emptyDuringDispatch, "observation_overlaps_dispatching_call");
		cls(r.sentinels > 0, "waiters_released_by_sentinel");
		cls(r.heter, "heterogeneous_queue");
		cls(r.followUps, "listener_enqueued_a_follow_up_event_during_a_processing_call");
		cls(r.orderedList, "ordered_queue_list");
		cls(r.knownFifoPutBack, "known_finding_fifo_inversion_after_putback_by_another_thread");
		cls(r.emptyDuringPredicateCall, "emptyQueue_true_overlapping_a_processIf_or_processUntil_call_not_judged");
		if(prop == "C06") v.nontrivial = r.overlapPC && r.overlapCC && (r.csPreempt || r.unPreempt);
		else if(prop == "C07") v.nontrivial = r.waiterParkedAtEnq;
		else if(prop == "C11") v.nontrivial = r.emptyDuringDispatch;
		else v.nontrivial = r.overlapPC;
		const std::string full = r.log.str();
		v.trace.assign(full, 0, std::min<size_t>(full.size(), 4000));
	}
	ledger().reset();
	return v;
}


// ---------------------------------------------------------------- bounded-exhaustive schedules
// For a fixed list of small thread programs, every schedule with at most K preemptions (K from VERIF_ENUM_K, default 1):
// the run follows one thread until it blocks or ends, and at up to K chosen steps the baton is handed to a chosen other
// thread. Depth-first: a run reports how many steps it took, its children add one more preemption at a later step.
// A preemption that had no effect (target not runnable) reproduces its parent, so that subtree is skipped.
Op mk(int kind, int a = 0, int b = 0, int c = 0) { Op o; o.kind = kind; o.a = a; o.b = b; o.c = c; return o; }
Op thread(std::initializer_list<Op> body) { Op t = mk(T_THREAD); t.body.assign(body.begin(), body.end()); return t; }

// programs whose interesting schedules need two preemptions: they are enumerated with K = 2 also in the quick tier
std::vector<int> g_templateDeep;
std::vector<Program> makeTemplates(const std::string & prop)
{
	std::vector<Program> out;
	g_templateDeep.clear();
	bool deep = false;
	auto add = [&](int pre, std::initializer_list<Op> threads) {
		g_templateDeep.push_back(deep ? 1 : 0);
		Program p;
		for(int i = 0; i < pre; ++i) p.ops.push_back(mk(T_PRE_ENQ, i & 1, 100 + i));
		for(const Op & t : threads) p.ops.push_back(t);
		out.push_back(p);
	};
	const Op enq0 = mk(C_ENQ, 0, 7), enq1 = mk(C_ENQ, 1, 8);
	if(prop == "C07") {
		const Op waits[2] = { mk(C_WAIT_DRAIN, 0), mk(C_WAITFOR_DRAIN, 0, 2) };
		for(const Op & w : waits) {
			add(0, { thread({ w }), thread({ enq0 }) });
			add(0, { thread({ w }), thread({ mk(C_DQN_BEGIN), enq0, mk(C_DQN_END) }) });
			add(0, { thread({ w }), thread({ mk(C_DQN_BEGIN), mk(C_DQN_BEGIN), enq0, mk(C_DQN_END), mk(C_DQN_END) }) });
			add(0, { thread({ w }), thread({ enq0 }), thread({ enq1 }) });
			add(0, { thread({ w }), thread({ mk(C_DQN_BEGIN), mk(C_DQN_END) }), thread({ enq0 }) });
			add(0, { thread({ w }), thread({ mk(C_DQN_BEGIN), mk(C_DQN_BEGIN), mk(C_DQN_END), mk(C_DQN_END) }), thread({ enq0 }) });
			add(0, { thread({ w }), thread({ mk(C_DQN_BEGIN), mk(C_DQN_END) }), thread({ mk(C_DQN_BEGIN), mk(C_DQN_END) }), thread({ enq0 }) });
			add(0, { thread({ w }), thread({ mk(C_DQN_BEGIN), enq0, mk(C_DQN_END) }), thread({ enq1 }) });
			add(0, { thread({ w }), thread({ mk(C_DQN_BEGIN), enq0, mk(C_DQN_END) }), thread({ mk(C_DQN_BEGIN), enq1, mk(C_DQN_END) }) });
			add(0, { thread({ w }), thread({ w }), thread({ enq0, enq1 }) });
			// the scope is left by an exception: the object dies during stack unwinding and must notify all the same
			add(0, { thread({ w }), thread({ mk(C_DQN_BEGIN), enq0, mk(C_DQN_END, 2) }) });
			add(0, { thread({ w }), thread({ mk(C_DQN_BEGIN), mk(C_DQN_BEGIN), enq0, mk(C_DQN_END, 2), mk(C_DQN_END) }) });
			add(0, { thread({ w }), thread({ enq0 }), thread({ mk(C_PROCESS) }) });
			add(1, { thread({ w }), thread({ mk(C_PROCESSONE) }), thread({ enq0 }) });
			add(0, { thread({ w }), thread({ enq0 }), thread({ mk(C_PROCESSIF, 1, 0) }) });      // a processIf that declines everything
			add(0, { thread({ w }), thread({ enq0 }), thread({ mk(C_PROCESSUNTIL, 0, 0) }) });   // a processUntil that stops at once
			add(1, { thread({ w }), thread({ mk(C_PROCESSIF, 1, 0) }), thread({ enq0 }) });
			// two waiters, one enqueue and a call that holds the event in its private batch and puts it back (defect E14: the
			// waiter woken by the enqueue drains nothing, the put-back must wake the other one)
			add(0, { thread({ w }), thread({ w }), thread({ enq0, mk(C_PROCESSIF, 1, 0) }) });
			add(0, { thread({ w }), thread({ w }), thread({ enq0, mk(C_PROCESSUNTIL, 0, 0) }) });
			// two waiters and a consumer that polls: the first enqueue wakes one waiter, which finds the event already inside the
			// poller's processing call and leaves; the second enqueue arrives while that call is still in progress and must wake the
			// other waiter (an enqueue that skips the notification "because a processing call is in progress": seeds C07-h, C07-k)
			add(0, { thread({ w }), thread({ w }), thread({ enq0, enq1 }), thread({ mk(C_PROCESS) }) });
			add(0, { thread({ w }), thread({ w }), thread({ enq0 }), thread({ mk(C_PROCESSONE) }), thread({ enq1 }) });
			// the second event is enqueued by the listener of the first (value 777), i.e. from inside the processing call
			add(0, { thread({ w }), thread({ w }), thread({ mk(C_ENQ, 0, 777), mk(C_PROCESS) }) });
			add(0, { thread({ w }), thread({ w }), thread({ mk(C_ENQ, 0, 777), mk(C_PROCESSONE) }) });
			add(0, { thread({ w }), thread({ w }), thread({ mk(C_ENQ, 0, 777) }) });
			add(0, { thread({ w }), thread({ w }), thread({ enq0 }), thread({ mk(C_PROCESS) }), thread({ enq1 }) });
			add(0, { thread({ w }), thread({ w }), thread({ enq0, mk(C_PROCESS) }), thread({ enq1 }) });     // one preemption suffices here
			add(0, { thread({ w }), thread({ w }), thread({ enq0, mk(C_PROCESSONE) }), thread({ enq1 }) });
			add(1, { thread({ w }), thread({ mk(C_PROCESS) }), thread({ enq0 }) });
			add(1, { thread({ w }), thread({ mk(C_PROCESSUNTIL, 2, 0) }), thread({ enq0 }) });
		}
	}
	else if(prop == "C11") {
		const Op cons[4] = { mk(C_PROCESS), mk(C_PROCESSONE), mk(C_TAKE), mk(C_CLEAR) };
		for(const Op & c : cons) {
			add(1, { thread({ mk(C_EMPTYQ) }), thread({ c }) });
			add(1, { thread({ mk(C_EMPTYQ), mk(C_EMPTYQ) }), thread({ c }), thread({ enq0 }) });
			add(2, { thread({ mk(C_EMPTYQ) }), thread({ c, c }) });
			add(1, { thread({ mk(C_WAITFOR_DRAIN, 0, 1) }), thread({ c }) });
		}
		// waitFor(0) (b % 3 == 0) evaluates its predicate once, under the queue mutex: an observation at one instant
		add(2, { thread({ mk(C_WAITFOR_DRAIN, 0, 0) }), thread({ mk(C_PROCESSUNTIL, 0, 0) }) });
		add(2, { thread({ mk(C_WAITFOR_DRAIN, 0, 0) }), thread({ mk(C_PROCESSIF, 1, 0) }) });
		add(2, { thread({ mk(C_WAITFOR_DRAIN, 0, 0) }), thread({ mk(C_PROCESSUNTIL, 2, 0) }), thread({ enq0 }) });
		add(1, { thread({ mk(C_WAITFOR_DRAIN, 0, 0) }), thread({ mk(C_PROCESS) }) });
		add(1, { thread({ mk(C_WAITFOR_DRAIN, 0, 0) }), thread({ mk(C_PROCESSONE) }) });
		for(int i = 0; i < 2; ++i) for(int j = i; j < 2; ++j) {
			add(2, { thread({ mk(C_EMPTYQ) }), thread({ cons[i] }), thread({ cons[j] }) });
			add(1, { thread({ mk(C_EMPTYQ) }), thread({ cons[i] }), thread({ enq0, cons[j] }) });
		}
	}
	else {
		const Op cons[7] = { mk(C_PROCESS), mk(C_PROCESSONE), mk(C_PROCESSIF, 1, 0), mk(C_PROCESSUNTIL, 1, 0), mk(C_TAKE), mk(C_PEEK), mk(C_CLEAR) };
		for(int i = 0; i < 7; ++i) {
			add(0, { thread({ enq0, enq1 }), thread({ cons[i] }) });
			add(1, { thread({ enq0 }), thread({ cons[i], cons[i] }) });
			for(int j = i; j < 7; ++j) add(2, { thread({ cons[i] }), thread({ cons[j] }), thread({ enq0 }) });
		}
	}
	return out;
}

std::string enumerate(const std::string & prop, const std::function<bool (const Program &)> & sink)
{
	int K = 1, shard = 0, shards = 1;
	if(const char * e = getenv("VERIF_ENUM_K")) K = std::max(0, std::min(atoi(e), 3));
	if(const char * e = getenv("VERIF_ENUM_SHARD")) { if(sscanf(e, "%d/%d", &shard, &shards) != 2 || shards < 1) { shard = 0; shards = 1; } }
	const std::vector<Program> templates = makeTemplates(prop);
	long index = 0, runs = 0, pruned = 0;
	int Kt = K;
	bool stop = false;
	std::function<void (Program &, std::vector<std::pair<long, int> > &, int)> dfs = [&](Program & p, std::vector<std::pair<long, int> > & pre, int depth) {
		if(stop) return;
		p.sched.clear();
		for(auto & r : pre) { p.sched.push_back((unsigned char)(r.first >> 8)); p.sched.push_back((unsigned char)(r.first & 255)); p.sched.push_back((unsigned char)r.second); }
		++runs;
		if(! sink(p)) { stop = true; return; }
		const long steps = std::min<long>(g_lastSteps, 4000);
		const int threads = g_lastThreads;
		if(depth > 0 && g_lastEffective < depth) { ++pruned; return; }
		if(depth >= Kt) return;
		const long from = pre.empty() ? 1 : pre.back().first + 1;
		for(long s = from; s <= steps && ! stop; ++s) for(int t = 1; t <= threads && ! stop; ++t) {
			pre.push_back(std::make_pair(s, t));
			dfs(p, pre, depth + 1);
			pre.pop_back();
		}
	};
	for(size_t ti = 0; ti < templates.size(); ++ti) for(int cfg = 0; cfg < 3 && ! stop; ++cfg) for(int order = 0; order < 2 && ! stop; ++order) {
		const Program & tpl = templates[ti];
		if(index++ % shards != shard) continue;
		Kt = (ti < g_templateDeep.size() && g_templateDeep[ti] && order == 0 && cfg < 2) ? std::max(K, 2) : K;
		Program p = tpl;
		p.params = { cfg, 0, order, 77 };
		std::vector<std::pair<long, int> > pre;
		dfs(p, pre, 0);
	}
	return std::to_string(templates.size()) + " thread programs x 3 queue configurations x 2 orders for forced switches (lowest / highest runnable thread first), every schedule with <= " + std::to_string(K) + " preemption(s) (<= 2 for the programs marked deep, on the first two queue configurations, lowest thread first) (shard " + std::to_string(shard) + "/" + std::to_string(shards)
		+ ": " + std::to_string(runs) + " runs, " + std::to_string(pruned) + " ineffective preemptions pruned); time-outs fire only when nothing can run";
}
} // namespace

namespace vf {
const Harness g_harness = { "cq", &grammar, &run, &kindName, &enumerate };
}
