// AnyData<1>: instantiates the whole size x kind table for this capacity.
#include "h_anydata_impl.h"

namespace vfad {
#define VF_ROW(N) { &runCase<N, 0, 1>, &runCase<N, 1, 1>, &runCase<N, 2, 1>, &runCase<N, 3, 1>, &runCase<N, 4, 1>, &runCase<N, 5, 1> },
CaseFn caseTable1(int sizeIndex, int kind)
{
	static const CaseFn table[kNumSizes][6] = { VF_SIZES(VF_ROW) };
	return table[sizeIndex][kind];
}
} // namespace vfad
