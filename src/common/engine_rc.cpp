// rapidcheck engine: builds rc::Gen<Program> generically from the harness grammar and checks
// "runCase(program) holds". Configured only through RC_PARAMS (seed=, max_success=, max_size=).
#include "harness.h"

#include <rapidcheck.h>

#include <algorithm>
#include <cstdio>

namespace vf {

void showValue(const Program & p, std::ostream & os)
{
	os << "\n" << caseText(p);
}

namespace {

const int kNominal = 100;

rc::Gen<int> genArg(const ArgSpec & s)
{
	if(s.biasPct > 0 && s.biasPct < 100) {
		return rc::gen::resize(kNominal, rc::gen::weightedOneOf<int>({
			{ (std::size_t)s.biasPct, rc::gen::inRange(s.blo, s.bhi + 1) },
			{ (std::size_t)(100 - s.biasPct), rc::gen::inRange(s.lo, s.hi + 1) }
		}));
	}
	if(s.biasPct >= 100) {
		return rc::gen::resize(kNominal, rc::gen::inRange(s.blo, s.bhi + 1));
	}
	if(s.lo >= s.hi) return rc::gen::just(s.lo);
	return rc::gen::resize(kNominal, rc::gen::inRange(s.lo, s.hi + 1));
}

rc::Gen<std::vector<Op> > genOps(const Grammar & g, int level, int depth, int maxOps, int minOps);

rc::Gen<Op> genOp(const Grammar & g, int level, int depth)
{
	const Level & lv = g.levels[level];
	// weighted choice: index repeated `weight` times (weightedElement only takes initializer lists)
	std::vector<int> weighted;
	for(size_t i = 0; i < lv.kinds.size(); ++i) {
		for(int w = 0; w < lv.kinds[i].weight; ++w) weighted.push_back((int)i);
	}
	const Grammar * gp = &g;
	return rc::gen::mapcat(rc::gen::elementOf(weighted), [gp, level, depth](int idx) {
		const KindSpec ks = gp->levels[level].kinds[idx];
		rc::Gen<std::vector<Op> > bodyGen = (ks.bodyLevel >= 0 && depth < gp->maxDepth && ks.bodyMax > 0)
			? genOps(*gp, ks.bodyLevel, depth + 1, ks.bodyMax, 0)
			: rc::gen::just(std::vector<Op>());
		return rc::gen::apply([ks](int a, int b, int c, std::vector<Op> body) {
			Op op;
			op.kind = ks.kind; op.a = a; op.b = b; op.c = c; op.body = std::move(body);
			return op;
		}, genArg(ks.a), genArg(ks.b), genArg(ks.c), bodyGen);
	});
}

rc::Gen<std::vector<Op> > genOps(const Grammar & g, int level, int depth, int maxOps, int minOps)
{
	const Grammar * gp = &g;
	// lazy: the recursion must not be expanded when the generator is built
	return rc::gen::withSize([gp, level, depth, maxOps, minOps](int size) {
		int n = depth == 0 ? minOps + (maxOps - minOps) * std::min(size, kNominal) / kNominal : maxOps;
		if(n < 1) n = 1;
		auto elems = rc::gen::resize(n, rc::gen::container<std::vector<Op> >(genOp(*gp, level, depth)));
		if(minOps <= 0) return elems;
		return rc::gen::suchThat(elems, [minOps](const std::vector<Op> & v) { return (int)v.size() >= std::min(minOps, 1); });
	});
}

void truncateOps(std::vector<Op> & ops, long & budget)
{
	for(size_t i = 0; i < ops.size(); ++i) {
		if(budget <= 0) { ops.resize(i); return; }
		--budget;
		truncateOps(ops[i].body, budget);
	}
}

rc::Gen<Program> genProgram(const Grammar & g)
{
	std::vector<rc::Gen<int> > pg;
	for(const ArgSpec & s : g.params) pg.push_back(genArg(s));
	const Grammar * gp = &g;
	auto paramsGen = rc::gen::exec([pg]() {
		std::vector<int> v;
		for(const auto & gen : pg) v.push_back(*gen);
		return v;
	});
	auto schedGen = g.maxSched > 0
		? rc::gen::resize(g.maxSched, rc::gen::container<std::vector<uint8_t> >(rc::gen::arbitrary<uint8_t>()))
		: rc::gen::just(std::vector<uint8_t>());
	return rc::gen::apply([gp](std::vector<int> params, std::vector<Op> ops, std::vector<uint8_t> sched) {
		Program p;
		p.params = std::move(params);
		p.ops = std::move(ops);
		p.sched = std::move(sched);
		long budget = gp->maxTotalOps;
		truncateOps(p.ops, budget);
		return p;
	}, paramsGen, genOps(g, 0, 0, g.levels[0].maxOps, g.levels[0].minOps), schedGen);
}

} // namespace

int rcMain()
{
	const Grammar & g = g_harness.grammar(config().prop);
	auto gen = genProgram(g);
	bool inShrink = false;
	bool ok = rc::check(std::string(g_harness.name) + "/" + config().prop, [&]() {
		Program p = *gen;
		bool r = runCase(p, inShrink);
		if(! r) inShrink = true; // after the first failure rapidcheck only runs shrink candidates
		RC_ASSERT(r);
	});
	return ok ? 0 : 1;
}

} // namespace vf
