"""Delta debugging on the replay text (DESIGN 2.2): structure-aware, driven by an out-of-process test."""
import re


def strip_comments(text):
    return ''.join(l + '\n' for l in text.splitlines() if not l.lstrip().startswith('#'))


class Op:
    def __init__(self, kind, a, b, c, name=''):
        self.kind, self.a, self.b, self.c, self.name = kind, a, b, c, name
        self.body = []

    def clone(self):
        o = Op(self.kind, self.a, self.b, self.c, self.name)
        o.body = [x.clone() for x in self.body]
        return o


def parse(text):
    lines = [l for l in text.splitlines() if l.strip() and not l.lstrip().startswith('#')]
    params = [int(x) for x in lines[0].split()[1:]]
    sched = ''.join(lines[1].split()[1:])
    pos = [2]

    def ops():
        out = []
        while pos[0] < len(lines):
            l = lines[pos[0]].strip()
            pos[0] += 1
            if l.startswith('}'):
                return out
            m = re.match(r'op\s+(-?\d+)\s+(-?\d+)\s+(-?\d+)\s+(-?\d+)\s*(#\S+)?\s*(\{)?', l)
            if not m:
                continue
            o = Op(int(m.group(1)), int(m.group(2)), int(m.group(3)), int(m.group(4)), m.group(5) or '')
            if m.group(6):
                o.body = ops()
            out.append(o)
        return out
    return params, sched, ops()


def dump(params, sched, ops):
    out = ['params ' + ' '.join(str(p) for p in params), ('sched ' + sched).rstrip()]

    def rec(lst, ind):
        for o in lst:
            s = ' ' * ind + 'op %d %d %d %d' % (o.kind, o.a, o.b, o.c) + (' ' + o.name if o.name else '')
            if o.body:
                out.append(s + ' {')
                rec(o.body, ind + 1)
                out.append(' ' * ind + '}')
            else:
                out.append(s)
    rec(ops, 0)
    return '\n'.join(out) + '\n'


def all_lists(ops):
    """every op list in the tree (top level and bodies), outermost first"""
    out = [ops]
    for o in ops:
        if o.body:
            out.extend(all_lists(o.body))
    return out


def minimize(text, still_fails, budget=250):
    params, sched, ops = parse(text)
    state = {'n': 0}

    def test(p, s, o):
        if state['n'] >= budget:
            return False
        state['n'] += 1
        return still_fails(dump(p, s, o))

    changed = True
    while changed and state['n'] < budget:
        changed = False
        # 1. remove chunks of ops from every list (ddmin-style: halves, quarters, singles)
        li = 0
        while state['n'] < budget:
            lsts = all_lists(ops)
            if li >= len(lsts):
                break
            cur = lsts[li]          # stays valid: only this list is edited below
            chunk = max(1, len(cur) // 2)
            while chunk >= 1 and state['n'] < budget:
                i = 0
                while i < len(cur) and state['n'] < budget:
                    saved = cur[i:i + chunk]
                    del cur[i:i + chunk]
                    if test(params, sched, ops):
                        changed = True
                    else:
                        cur[i:i] = saved
                        i += chunk
                if chunk == 1:
                    break
                chunk //= 2
            li += 1
        # 2. hoist: replace an op by its body
        for lst in all_lists(ops):
            i = 0
            while i < len(lst) and state['n'] < budget:
                o = lst[i]
                if o.body:
                    saved = o
                    lst[i:i + 1] = o.body
                    if test(params, sched, ops):
                        changed = True
                        continue
                    lst[i:i + len(saved.body)] = [saved]
                i += 1
        # 3. truncate the schedule bytes
        if sched and state['n'] < budget:
            for cut in (0, len(sched) // 4 * 2, len(sched) // 2 // 2 * 2):
                if cut < len(sched) and test(params, sched[:cut], ops):
                    sched = sched[:cut]
                    changed = True
                    break
        # 4. integers towards 0
        for lst in all_lists(ops):
            for o in lst:
                for fld in ('a', 'b', 'c'):
                    v = getattr(o, fld)
                    for cand in (0, v // 2):
                        if cand != v and abs(cand) < abs(v) and state['n'] < budget:
                            setattr(o, fld, cand)
                            if test(params, sched, ops):
                                changed = True
                                v = cand
                                break
                            setattr(o, fld, v)
        for i in range(len(params)):
            if params[i] != 0 and state['n'] < budget:
                v = params[i]
                params[i] = 0
                if test(params, sched, ops):
                    changed = True
                else:
                    params[i] = v
    return dump(params, sched, ops)
