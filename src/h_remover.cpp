// Harness `remover`: ScopedRemover ownership histories (C15) and CounterRemover / ConditionalRemover
// trigger histories incl. re-entrant and queued dispatch (C16). Lock-step with ownership / trigger models.
#include <eventpp/callbacklist.h>
#include <eventpp/eventdispatcher.h>
#include <eventpp/eventqueue.h>
#include <eventpp/hetercallbacklist.h>
#include <eventpp/hetereventdispatcher.h>
#include <eventpp/utilities/scopedremover.h>
#include <eventpp/utilities/counterremover.h>
#include <eventpp/utilities/conditionalremover.h>
#include <map>

#include "common/harness.h"
#include "common/ledger.h"
#include "common/models.h"
#include "common/leak.h"
#include "common/faultmode.h"

#include <climits>
#include <memory>
#include <set>
#include <sstream>

namespace {
using namespace vf;

enum Kind {
	R_ADD = 1, R_ADD_DIRECT, R_REMOVE, R_RESET, R_SETTARGET, R_MOVECTOR, R_MOVEASSIGN, R_SWAP, R_DESTROY, R_NEW, R_TRIGGER, R_REMOVE_DIRECT,
	R_ADD_COUNTER, R_ADD_COND, R_HASANY, R_MAX
};
const char * kindName(int k)
{
	static const char * n[] = { "?", "addThroughRemover", "addDirect", "removeThroughRemover", "reset", "setTarget", "moveConstruct", "moveAssign", "swap", "destroyRemover", "newRemover",
		"trigger", "removeDirect", "addCounter", "addConditional", "hasAnyListener" };
	return (k > 0 && k < R_MAX) ? n[k] : "?";
}

const int kObjs = 2, kRemovers = 3, kKeys = 2, kMaxDepth = 4, kFuel = 200;

struct Interp;
Interp * g_r = nullptr;
void deliverListener(int cb, int arg);
bool deliverCondition(int cb, int arg, bool hasArg);

struct RL : LedgeredT<2>
{
	explicit RL(int cb) : LedgeredT<2>(kCbBase + cb) {}
	void operator() (int arg) const { touch(); deliverListener(id - kCbBase, arg); }
};
struct Cond : LedgeredT<5>
{
	explicit Cond(int cb) : LedgeredT<5>(kAuxBase + cb) {}
	bool operator() (int arg) const { touch(); return deliverCondition(id - kAuxBase, arg, true); }
};
// callable both with the trigger's argument and with none: the statement says "with the trigger's arguments if it
// accepts them", so the one-argument overload is the one that must run
struct CondBoth : LedgeredT<5>
{
	explicit CondBoth(int cb) : LedgeredT<5>(kAuxBase + cb) {}
	bool operator() (int arg) const { touch(); return deliverCondition(id - kAuxBase, arg, true); }
	bool operator() () const { touch(); return deliverCondition(id - kAuxBase, 0, false); }
};
// a condition whose result is not a bool: any non-zero value means "the condition holds"
struct CondInt : LedgeredT<5>
{
	explicit CondInt(int cb) : LedgeredT<5>(kAuxBase + cb) {}
	int operator() (int arg) const { touch(); return deliverCondition(id - kAuxBase, arg, true) ? 2 + (arg & 4) : 0; }
};
struct CondNoArg : LedgeredT<5>
{
	explicit CondNoArg(int cb) : LedgeredT<5>(kAuxBase + cb) {}
	bool operator() () const { touch(); return deliverCondition(id - kAuxBase, 0, false); }
};

struct ITarget
{
	virtual ~ITarget() {}
	virtual bool hasKeys() const = 0;
	virtual bool hasScoped() const = 0;
	virtual bool canQueue() const = 0;
	virtual void add(int obj, int key, int how, int before, int cb) = 0;
	virtual void addCounter(int obj, int key, int how, int before, int cb, int n) = 0;
	virtual void addCond(int obj, int key, int how, int before, int cb, int form) = 0; // form: 0 no argument, 1 argument, 2 both, 3 argument with an int result
	virtual bool remove(int obj, int key, int h) = 0;
	virtual void trigger(int obj, int key, int arg, bool queued) = 0;
	virtual void enumerate(int obj, int key, std::vector<int> & out) = 0;
	virtual void rmNew(int slot, int mode) = 0;
	virtual void rmDestroy(int slot) = 0;
	virtual void rmAdd(int slot, int key, int how, int before, int cb) = 0;
	virtual bool rmRemove(int slot, int key, int h) = 0;
	virtual void rmReset(int slot) = 0;
	virtual void rmSetTarget(int slot, int obj) = 0;
	virtual void rmMoveCtor(int src, int dst) = 0;
	virtual void rmMoveAssign(int dst, int src) = 0;
	virtual void rmSwap(int a, int b) = 0;
	virtual size_t handleCount() const = 0;
	virtual bool hasAny(int obj, int key) = 0;
};

struct PolEx { using ArgumentPassingMode = eventpp::ArgumentPassingExcludeEvent; };
using TList = eventpp::CallbackList<void (int)>;
using TDisp = eventpp::EventDispatcher<int, void (int), PolEx>;
using TQueue = eventpp::EventQueue<int, void (int), PolEx>;
// a user key type: every copy is a fault point and its move constructor may throw, so std::vector relocates it by copying
// While a pure look-up (hasAnyListener) is the faulted operation its comparisons are fault points too: the exception of
// the user's comparison must reach the caller. (Not during other operations: what ScopedRemover::reset / removeListener
// owe their caller when a look-up throws half way is not something C09 states.)
bool g_keyCompareFaults = false;
struct FKey : LedgeredT<6, true>
{
	FKey(int k_ = 0) : LedgeredT<6, true>(kKeyBase + 700 + k_), k(k_) {}
	// like std::string, a moved-from key no longer has its value: a key that was handed over as an rvalue must not be read again
	FKey(const FKey & o) : LedgeredT<6, true>(o), k(o.k) {}
	FKey(FKey && o) : LedgeredT<6, true>(std::move(o)), k(o.k) { o.k = -12345; }
	FKey & operator = (const FKey & o) { LedgeredT<6, true>::operator = (o); k = o.k; return *this; }
	FKey & operator = (FKey && o) { LedgeredT<6, true>::operator = (std::move(o)); k = o.k; if(&o != this) o.k = -12345; return *this; }
	int k;
	friend bool operator == (const FKey & a, const FKey & b) { a.touch(); b.touch(); if(g_keyCompareFaults) faults().point(4); return a.k == b.k; }
	friend bool operator < (const FKey & a, const FKey & b) { a.touch(); b.touch(); if(g_keyCompareFaults) faults().point(4); return a.k < b.k; }
};
struct PolExMap { using ArgumentPassingMode = eventpp::ArgumentPassingExcludeEvent; template <typename K, typename V> using Map = std::map<K, V>; };
using TDispKey = eventpp::EventDispatcher<FKey, void (int), PolExMap>;
using THList = eventpp::HeterCallbackList<eventpp::HeterTuple<void (int), void (const std::string &)> >;
using THDisp = eventpp::HeterEventDispatcher<int, eventpp::HeterTuple<void (int), void (const std::string &)> >;

// uniform access to the five target kinds
template <typename T> struct Acc;
template <> struct Acc<TList> {
	using Handle = TList::Handle;
	template <typename F> static Handle add(TList & t, int, int how, const Handle & b, const F & f) { return how == 0 ? t.append(f) : how == 1 ? t.prepend(f) : t.insert(f, b); }
	template <typename R, typename F> static Handle radd(R & r, int, int how, const Handle & b, const F & f) { return how == 0 ? r.append(f) : how == 1 ? r.prepend(f) : r.insert(f, b); }
	template <typename R, typename F> static Handle cadd(R r, int, int how, const Handle & b, const F & f, int n) { return how == 0 ? r.append(f, n) : how == 1 ? r.prepend(f, n) : r.insert(f, b, n); }
	template <typename R, typename F, typename C> static Handle dadd(R r, int, int how, const Handle & b, const F & f, const C & c) { return how == 0 ? r.append(f, c) : how == 1 ? r.prepend(f, c) : r.insert(f, b, c); }
	static bool remove(TList & t, int, const Handle & h) { return t.remove(h); }
	template <typename R> static bool rremove(R & r, int, const Handle & h) { return r.remove(h); }
	static void trigger(TList & t, int, int arg, bool) { t(arg); }
	static bool hasAny(TList & t, int) { return ! t.empty(); }
	template <typename F> static void each(TList & t, int, F f) { t.forEach([&](const Handle & h, const TList::Callback &) { f(h); }); }
	template <typename R> static void setTarget(R & r, TList & t) { r.setCallbackList(t); }
	static bool same(const Handle & a, const Handle & b) { return ! a.expired() && ! b.expired() && ! a.owner_before(b) && ! b.owner_before(a); }
	enum { keys = 0, scoped = 1, queue = 0 };
};
template <typename D> struct AccDisp {
	using Handle = typename D::Handle;
	template <typename F> static Handle add(D & t, int k, int how, const Handle & b, const F & f) { return how == 0 ? t.appendListener(k, f) : how == 1 ? t.prependListener(k, f) : t.insertListener(k, f, b); }
	template <typename R, typename F> static Handle radd(R & r, int k, int how, const Handle & b, const F & f) { return how == 0 ? r.appendListener(k, f) : how == 1 ? r.prependListener(k, f) : r.insertListener(k, f, b); }
	template <typename R, typename F> static Handle cadd(R r, int k, int how, const Handle & b, const F & f, int n) { return how == 0 ? r.appendListener(k, f, n) : how == 1 ? r.prependListener(k, f, n) : r.insertListener(k, f, b, n); }
	template <typename R, typename F, typename C> static Handle dadd(R r, int k, int how, const Handle & b, const F & f, const C & c) { return how == 0 ? r.appendListener(k, f, c) : how == 1 ? r.prependListener(k, f, c) : r.insertListener(k, f, b, c); }
	static bool remove(D & t, int k, const Handle & h) { return t.removeListener(k, h); }
	template <typename R> static bool rremove(R & r, int k, const Handle & h) { return r.removeListener(k, h); }
	template <typename R> static void setTarget(R & r, D & t) { r.setDispatcher(t); }
	static bool hasAny(D & t, int k) { return t.hasAnyListener(k); }
};
template <> struct Acc<TDisp> : AccDisp<TDisp> {
	static void trigger(TDisp & t, int k, int arg, bool) { t.dispatch(k, arg); }
	template <typename F> static void each(TDisp & t, int k, F f) { t.forEach(k, [&](const Handle & h, const TDisp::Callback &) { f(h); }); }
	static bool same(const Handle & a, const Handle & b) { return ! a.expired() && ! b.expired() && ! a.owner_before(b) && ! b.owner_before(a); }
	enum { keys = 1, scoped = 1, queue = 0 };
};
template <> struct Acc<TDispKey> : AccDisp<TDispKey> {
	// the event reaches the remover / the dispatcher as an rvalue of exactly the Event type for odd keys, as an lvalue for even ones
	template <typename F> static Handle add(TDispKey & t, int k, int how, const Handle & b, const F & f) {
		if(k & 1) return how == 0 ? t.appendListener(FKey(k), f) : how == 1 ? t.prependListener(FKey(k), f) : t.insertListener(FKey(k), f, b);
		FKey key(k); return how == 0 ? t.appendListener(key, f) : how == 1 ? t.prependListener(key, f) : t.insertListener(key, f, b);
	}
	template <typename R, typename F> static Handle radd(R & r, int k, int how, const Handle & b, const F & f) {
		if(k & 1) return how == 0 ? r.appendListener(FKey(k), f) : how == 1 ? r.prependListener(FKey(k), f) : r.insertListener(FKey(k), f, b);
		FKey key(k); return how == 0 ? r.appendListener(key, f) : how == 1 ? r.prependListener(key, f) : r.insertListener(key, f, b);
	}
	static void trigger(TDispKey & t, int k, int arg, bool) { t.dispatch(FKey(k), arg); }
	template <typename F> static void each(TDispKey & t, int k, F f) { t.forEach(k, [&](const Handle & h, const TDispKey::Callback &) { f(h); }); }
	static bool same(const Handle & a, const Handle & b) { return ! a.expired() && ! b.expired() && ! a.owner_before(b) && ! b.owner_before(a); }
	enum { keys = 1, scoped = 1, queue = 0 };
};
template <> struct Acc<TQueue> : AccDisp<TQueue> {
	static void trigger(TQueue & t, int k, int arg, bool queued) { if(queued) { t.enqueue(k, arg); t.process(); } else t.dispatch(k, arg); }
	template <typename F> static void each(TQueue & t, int k, F f) { t.forEach(k, [&](const Handle & h, const TQueue::Callback &) { f(h); }); }
	static bool same(const Handle & a, const Handle & b) { return ! a.expired() && ! b.expired() && ! a.owner_before(b) && ! b.owner_before(a); }
	enum { keys = 1, scoped = 1, queue = 1 };
};
inline bool sameHeter(const THList::Handle & a, const THList::Handle & b) {
	return a.index == b.index && ! a.homoHandle.expired() && ! b.homoHandle.expired() && ! a.homoHandle.owner_before(b.homoHandle) && ! b.homoHandle.owner_before(a.homoHandle);
}
template <> struct Acc<THList> {
	using Handle = THList::Handle;
	template <typename F> static Handle add(THList & t, int, int how, const Handle & b, const F & f) { return how == 0 ? t.append(f) : how == 1 ? t.prepend(f) : t.insert(f, b); }
	template <typename R, typename F> static Handle radd(R & r, int, int how, const Handle & b, const F & f) { return how == 0 ? r.append(f) : how == 1 ? r.prepend(f) : r.insert(f, b); }
	template <typename R, typename F> static Handle cadd(R r, int, int how, const Handle & b, const F & f, int n) { return how == 0 ? r.append(f, n) : how == 1 ? r.prepend(f, n) : r.insert(f, b, n); }
	template <typename R, typename F, typename C> static Handle dadd(R r, int, int how, const Handle & b, const F & f, const C & c) { return how == 0 ? r.append(f, c) : how == 1 ? r.prepend(f, c) : r.insert(f, b, c); }
	static bool remove(THList & t, int, const Handle & h) { return t.remove(h); }
	template <typename R> static bool rremove(R &, int, const Handle &) { return false; }
	static void trigger(THList & t, int, int arg, bool) { t(arg); }
	static bool hasAny(THList & t, int) { return ! t.empty(); }
	template <typename F> static void each(THList & t, int, F f) { t.forEach<void (int)>([&](const Handle & h, const std::function<void (int)> &) { f(h); }); }
	template <typename R> static void setTarget(R & r, THList & t) { r.setCallbackList(t); }
	static bool same(const Handle & a, const Handle & b) { return sameHeter(a, b); }
	enum { keys = 0, scoped = 0, queue = 0 };
};
template <> struct Acc<THDisp> : AccDisp<THDisp> {
	template <typename R> static bool rremove(R &, int, const Handle &) { return false; }
	static void trigger(THDisp & t, int k, int arg, bool) { t.dispatch(k, arg); }
	template <typename F> static void each(THDisp & t, int k, F f) { t.forEach<void (int)>(k, [&](const Handle & h, const std::function<void (int)> &) { f(h); }); }
	static bool same(const Handle & a, const Handle & b) { return sameHeter(a, b); }
	enum { keys = 1, scoped = 0, queue = 0 };
};

template <typename T>
struct Target : ITarget
{
	using A = Acc<T>;
	using Handle = typename A::Handle;
	using Remover = eventpp::ScopedRemover<T>;
	T objs[kObjs];
	std::unique_ptr<Remover> rm[kRemovers + 2];
	std::vector<Handle> handles;
	Target() { handles.reserve(4096); }
	Handle H(int h) const { return h >= 0 && (size_t)h < handles.size() ? handles[h] : Handle(); }

	~Target() override { for(auto & r : rm) r.reset(); }
	bool hasKeys() const override { return A::keys; }
	bool hasScoped() const override { return A::scoped; }
	bool canQueue() const override { return A::queue; }
	void add(int o, int k, int how, int b, int cb) override { handles.push_back(A::add(objs[o], k, how, H(b), RL(cb))); }
	void addCounter(int o, int k, int how, int b, int cb, int n) override {
		handles.push_back(A::cadd(eventpp::counterRemover(objs[o]), k, how, H(b), RL(cb), n));
	}
	void addCond(int o, int k, int how, int b, int cb, int form) override {
		if(form == 3) handles.push_back(A::dadd(eventpp::conditionalRemover(objs[o]), k, how, H(b), RL(cb), CondInt(cb)));
		else if(form == 2) handles.push_back(A::dadd(eventpp::conditionalRemover(objs[o]), k, how, H(b), RL(cb), CondBoth(cb)));
		else if(form == 1) handles.push_back(A::dadd(eventpp::conditionalRemover(objs[o]), k, how, H(b), RL(cb), Cond(cb)));
		else handles.push_back(A::dadd(eventpp::conditionalRemover(objs[o]), k, how, H(b), RL(cb), CondNoArg(cb)));
	}
	bool remove(int o, int k, int h) override { return A::remove(objs[o], k, H(h)); }
	void trigger(int o, int k, int arg, bool queued) override { A::trigger(objs[o], k, arg, queued); }
	void enumerate(int o, int k, std::vector<int> & out) override {
		A::each(objs[o], k, [&](const Handle & h) {
			int found = -2;
			for(size_t i = handles.size(); i > 0; --i) if(A::same(handles[i - 1], h)) { found = (int)(i - 1); break; }
			out.push_back(found);
		});
	}
	void rmNew(int s, int mode) override { rm[s].reset(mode == 0 ? new Remover() : new Remover(objs[mode - 1])); }
	void rmDestroy(int s) override { rm[s].reset(); }
	void rmAdd(int s, int k, int how, int b, int cb) override { handles.push_back(A::radd(*rm[s], k, how, H(b), RL(cb))); }
	bool rmRemove(int s, int k, int h) override { return A::rremove(*rm[s], k, H(h)); }
	void rmReset(int s) override { rm[s]->reset(); }
	void rmSetTarget(int s, int o) override { A::setTarget(*rm[s], objs[o]); }
	void rmMoveCtor(int src, int dst) override { rm[dst].reset(new Remover(std::move(*rm[src]))); }
	void rmMoveAssign(int dst, int src) override { *rm[dst] = std::move(*rm[src]); }
	void rmSwap(int a, int b) override { rm[a]->swap(*rm[b]); }
	size_t handleCount() const override { return handles.size(); }
	bool hasAny(int o, int k) override { return A::hasAny(objs[o], k); }
};

ITarget * makeTarget(int kind)
{
	switch(kind) {
	case 0: return new Target<TList>();
	case 1: return new Target<TDisp>();
	case 2: return new Target<TQueue>();
	case 3: return new Target<THList>();
	case 4: return new Target<THDisp>();
	default: return new Target<TDispKey>();
	}
}

// ---------------------------------------------------------------- model

struct LibProxy
{
	ITarget * p = nullptr;
	struct Scope
	{
		ITarget * p;
		explicit Scope(ITarget * p_) : p(p_) { --faults().paused; }
		~Scope() { ++faults().paused; }
		ITarget * operator -> () const { return p; }
	};
	Scope operator -> () const { return Scope(p); }
};

enum NodeKind { N_PLAIN, N_COUNTER, N_COND };
struct Node
{
	int cb, obj, key;
	NodeKind kind = N_PLAIN;
	int n = 1;            // trigger count (counter)
	int triggers = 0;
	bool condWithArg = true;
	int condBits = 0;     // k-th evaluation -> bit k
	bool condSeenThisTrigger = false;
	int owner = -1;       // scoped remover responsible, -1 none
	std::set<int> limbo;  // removers involved in a move assignment that displaced this listener
	bool inLimbo = false;
	int throwAt = 0;      // C16: the listener leaves its k-th invocation by an exception (0 = never)
};
struct ListenerThrow {};
struct MRemover
{
	bool alive = false;
	int target = -1; // object index or -1
	std::vector<int> owned;
};

struct TFrame { int obj, key, arg; InvokeFrame inv; };

struct Interp
{
	const Program & prog;
	std::string prop;
	Verdict & v;
	std::unique_ptr<ITarget> impl;
	LibProxy lib;
	FaultPlan * plan = nullptr;
	ListModel lists[kObjs][kKeys];
	std::vector<Node> nodes;
	std::vector<const std::vector<Op> *> bodies;
	MRemover rm[kRemovers + 2];
	std::vector<TFrame> frames;
	int fuel = kFuel;
	bool failed = false;
	std::ostringstream log;
	bool c16 = false;
	int pendingCond = -1;
	bool condBothForms = false;
	bool selfMoveAssign = false, removeDetachedInsideTrigger = false, listenerThrew = false, condIntResult = false;

	bool moveAssignBothOwn = false, bothGoneAfter = false, nontrivCounter = false, reentrant = false, condTrueNested = false, otherPresent = false;
	std::set<std::pair<int, int> > maPairs;

	Interp(const Program & p, const std::string & pr, Verdict & v_) : prog(p), prop(pr), v(v_) {}
	void fail(const std::string & rule, const std::string & pr, const std::string & msg) {
		if(failed) return;
		failed = true;
		std::string s = log.str();
		if(s.size() > 700) s = "..." + s.substr(s.size() - 700);
		v.fail(rule, pr, msg + " | log: " + s);
	}
	int keyOf(int a) const { return impl->hasKeys() ? (a & 1) : 0; }
	bool where(int node, int & o, int & k) const {
		for(o = 0; o < kObjs; ++o) for(k = 0; k < kKeys; ++k) if(lists[o][k].has(node)) return true;
		o = k = -1;
		return false;
	}
	int resolve(int a, int self) const {
		int n = (int)nodes.size();
		if(a >= 0) return n ? a % n : -1;
		if(a == -1) return self >= 0 ? self : (n ? n - 1 : -1);
		if(a == -4) return n ? n - 1 : -1;
		return -1;
	}
	int newNode(const Op & op, int obj, int key) {
		Node nd; nd.cb = (int)nodes.size(); nd.obj = obj; nd.key = key;
		nodes.push_back(nd);
		bodies.push_back(&op.body);
		return (int)nodes.size() - 1;
	}
	// place the node in the model list; returns false if the op must be skipped (foreign `before` handle: UB)
	bool placeable(int obj, int key, int how, int before) {
		if(how != 2 || before < 0) return true;
		int o, k;
		if(where(before, o, k) && (o != obj || k != key)) return false;
		return true;
	}
	void place(int node, int obj, int key, int how, int before) {
		if(how == 0) lists[obj][key].append(node);
		else if(how == 1) lists[obj][key].prepend(node);
		else lists[obj][key].insertBefore(node, before);
	}
	void detach(int node) { int o, k; if(where(node, o, k)) lists[o][k].remove(node); }

	void exec(const std::vector<Op> & ops, int depth, int self) {
		int index = 0;
		for(const Op & op : ops) {
			if(failed) return;
			if(depth == 0 && plan) execWithFaults(op, index);
			else execOp(op, depth, self);
			if(depth == 0 && ! failed) observe();
			++index;
		}
	}

	// C09: listener management, directly or through the remover utilities, leaves everything as it was when it throws;
	// a trigger that throws leaves what the callbacks (and the remover wrappers) did
	void execWithFaults(const Op & op, int index) {
		struct Snap { ListModel lists[kObjs][kKeys]; std::vector<Node> nodes; size_t bodies; MRemover rm[kRemovers + 2]; } snap;
		for(int o = 0; o < kObjs; ++o) for(int k = 0; k < kKeys; ++k) snap.lists[o][k] = lists[o][k];
		snap.nodes = nodes; snap.bodies = bodies.size();
		for(int i = 0; i < kRemovers + 2; ++i) snap.rm[i] = rm[i];
		const size_t depth0 = frames.size();
		bool nonEmpty = false;
		for(int o = 0; o < kObjs; ++o) for(int k = 0; k < kKeys; ++k) if(! lists[o][k].empty()) nonEmpty = true;
		int caught = 0;
		{
			FaultArm arm(plan, index);
			try { execOp(op, 0, -1); }
			catch(const Injected &) { caught = 1; }
			catch(const std::bad_alloc &) { caught = 2; }
			catch(...) { fail("fault.foreign", "C09", "an exception of a different type than the injected one reached the caller"); }
		}
		if(! caught) return;
		if(faults().fired == 0) { fail("fault.spurious", "C09", "an exception reached the caller although no fault was injected"); return; }
		++plan->fired;
		plan->firedKind = faults().lastKind;
		auto it = plan->at.find(index);
		if(it != plan->at.end() && it->second > 1 && nonEmpty) plan->firedAtKGreater1OnNonEmpty = true;
		log << "[fault " << (caught == 1 ? "Injected" : "bad_alloc") << "]";
		frames.resize(depth0);
		if(op.kind != R_TRIGGER) {
			for(int o = 0; o < kObjs; ++o) for(int k = 0; k < kKeys; ++k) lists[o][k] = snap.lists[o][k];
			nodes = snap.nodes; bodies.resize(snap.bodies);
			for(int i = 0; i < kRemovers + 2; ++i) rm[i] = snap.rm[i];
			if(impl->handleCount() != nodes.size()) {
				// the add reached the target (a handle exists) although the call failed: the observation below shows the orphan
				log << "[handle produced by a failed add]";
			}
		}
	}

	void resetModel(int s) {
		for(int n : rm[s].owned) if(nodes[n].owner == s) { detach(n); nodes[n].owner = -1; }
		rm[s].owned.clear();
	}
	// a remover went away: limbo listeners that only waited for it
	void removerGone(int s) {
		for(size_t n = 0; n < nodes.size(); ++n) {
			Node & nd = nodes[n];
			if(! nd.inLimbo) continue;
			nd.limbo.erase(s);
			if(nd.limbo.empty()) {
				// every remover involved in the move assignment is gone: the listener must not be attached any more
				nd.inLimbo = false;
				int o, k;
				if(where((int)n, o, k)) { lists[o][k].remove((int)n); nd.owner = -1; }
				bothGoneAfter = true;
			}
		}
	}

	void execOp(const Op & op, int depth, int self) {
		log << ' ' << kindName(op.kind);
		const int s = ((op.a % kRemovers) + kRemovers) % kRemovers;
		switch(op.kind) {
		case R_NEW: {
			if(! impl->hasScoped() || rm[s].alive) break;
			int mode = ((op.b % 3) + 3) % 3;
			rm[s] = MRemover(); rm[s].alive = true; rm[s].target = mode == 0 ? -1 : mode - 1;
			lib->rmNew(s, mode);
			break;
		}
		case R_ADD: {
			if(! impl->hasScoped() || ! rm[s].alive || rm[s].target < 0) break;
			int obj = rm[s].target, key = keyOf(op.c), how = ((op.b % 3) + 3) % 3, before = resolve(op.c >> 1, self);
			if(! placeable(obj, key, how, before)) break;
			int node = newNode(op, obj, key);
			place(node, obj, key, how, before);
			nodes[node].owner = s;
			rm[s].owned.push_back(node);
			lib->rmAdd(s, key, how, before, nodes[node].cb);
			log << "(r" << s << ":n" << node << ")";
			break;
		}
		case R_ADD_DIRECT: case R_ADD_COUNTER: case R_ADD_COND: {
			int obj = op.a & 1, key = keyOf(op.c), how = ((op.b % 3) + 3) % 3, before = resolve(op.c >> 1, self);
			if(! placeable(obj, key, how, before)) break;
			if((op.kind != R_ADD_DIRECT) && ! c16) break;
			int node = newNode(op, obj, key);
			place(node, obj, key, how, before);
			if(op.kind == R_ADD_DIRECT) lib->add(obj, key, how, before, nodes[node].cb);
			else if(op.kind == R_ADD_COUNTER) {
				static const int special[] = { INT_MIN, -5, -1, 0, 1, 2, 3, 7, INT_MAX };
				int n = (op.a >> 1) % 12 < 9 ? special[(op.a >> 1) % 12 < 0 ? 0 : (op.a >> 1) % 12] : ((op.a >> 5) % 9);
				nodes[node].kind = N_COUNTER; nodes[node].n = n;
				if(depth == 0 && ((op.a >> 9) & 3) >= 2) nodes[node].throwAt = ((op.a >> 9) & 3) - 1;
				if(n <= 0 || n >= 2) nontrivCounter = true;
				lib->addCounter(obj, key, how, before, nodes[node].cb, n);
				log << "(n" << node << " count " << n << ")";
			}
			else {
				nodes[node].kind = N_COND; nodes[node].condBits = op.a >> 2; nodes[node].condWithArg = (op.a & 2) != 0;
				const int top2 = (op.a >> 6) & 3;
				if(depth == 0 && ((op.a >> 8) & 3) >= 2) nodes[node].throwAt = ((op.a >> 8) & 3) - 1;
				lib->addCond(obj, key, how, before, nodes[node].cb, nodes[node].condWithArg ? (top2 >= 2 ? 2 : top2 == 1 ? 3 : 1) : 0);
				if(nodes[node].condWithArg && top2 >= 2) condBothForms = true;
				if(nodes[node].condWithArg && top2 == 1) condIntResult = true;
				log << "(n" << node << " cond " << nodes[node].condBits << ")";
			}
			break;
		}
		case R_REMOVE: {
			if(! impl->hasScoped() || ! rm[s].alive || rm[s].target < 0) break;
			int h = resolve(op.b, self);
			if(h < 0) break;
			int o, k;
			bool attached = where(h, o, k);
			// a handle of a listener attached to another object / event must not be passed (documented UB of the target)
			if(attached && o != rm[s].target) break;
			int key = nodes[h].key;
			bool expect = attached && nodes[h].owner == s && ! nodes[h].inLimbo;
			if(nodes[h].inLimbo) break; // responsibility is unspecified while in limbo
			if(expect) {
				detach(h);
				nodes[h].owner = -1;
				rm[s].owned.erase(std::find(rm[s].owned.begin(), rm[s].owned.end(), h));
			}
			if(! frames.empty() && ! attached && std::find(rm[s].owned.begin(), rm[s].owned.end(), h) != rm[s].owned.end()) removeDetachedInsideTrigger = true;
			bool r = lib->rmRemove(s, key, h);
			log << "(r" << s << ",h" << h << ")=" << r;
			if(r != expect) fail("remover.remove.result", "C15", "remove through the remover returned " + std::to_string(r) + ", model says " + std::to_string(expect));
			break;
		}
		case R_REMOVE_DIRECT: {
			int h = resolve(op.b, self);
			if(h < 0) break;
			int o, k;
			if(! where(h, o, k)) { o = nodes[h].obj; k = nodes[h].key; }
			if(nodes[h].inLimbo) break;
			bool expect = lists[o][k].remove(h);
			bool r = lib->remove(o, k, h);
			log << "(h" << h << ")=" << r;
			if(r != expect) fail("remover.removeDirect.result", prop, "direct remove returned " + std::to_string(r) + ", model says " + std::to_string(expect));
			break;
		}
		case R_RESET: {
			if(! impl->hasScoped() || ! rm[s].alive) break;
			resetModel(s);
			lib->rmReset(s);
			removerGone(s);
			break;
		}
		case R_SETTARGET: {
			if(! impl->hasScoped() || ! rm[s].alive) break;
			int obj = op.b & 1;
			if(rm[s].target != obj) { resetModel(s); removerGone(s); rm[s].target = obj; }
			lib->rmSetTarget(s, obj);
			break;
		}
		case R_DESTROY: {
			if(! impl->hasScoped() || ! rm[s].alive) break;
			resetModel(s);
			rm[s].alive = false;
			lib->rmDestroy(s);
			removerGone(s);
			break;
		}
		case R_MOVECTOR: {
			if(! impl->hasScoped() || ! rm[s].alive) break;
			int d = -1;
			for(int i = 0; i < kRemovers; ++i) if(! rm[i].alive) { d = i; break; }
			if(d < 0) break;
			rm[d] = MRemover(); rm[d].alive = true; rm[d].target = rm[s].target; rm[d].owned = rm[s].owned;
			for(int n : rm[d].owned) nodes[n].owner = d;
			rm[s].owned.clear();
			lib->rmMoveCtor(s, d);
			break;
		}
		case R_MOVEASSIGN: {
			int src = ((op.b % kRemovers) + kRemovers) % kRemovers;
			if(! impl->hasScoped() || ! rm[s].alive || ! rm[src].alive) break;
			if(src == s) {
				// move assignment from itself: the remover stays alive and responsible, so nothing may be detached
				lib->rmMoveAssign(s, s);
				selfMoveAssign = true;
				log << "(r" << s << "<-itself)";
				break;
			}
			if(! rm[s].owned.empty() && ! rm[src].owned.empty()) moveAssignBothOwn = true;
			// what the destination was responsible for: may be detached now or stay until both removers are gone
			for(int n : rm[s].owned) {
				if(nodes[n].owner != s) continue;
				nodes[n].inLimbo = true;
				nodes[n].limbo.insert(s);
				nodes[n].limbo.insert(src);
			}
			rm[s].owned = rm[src].owned;
			rm[s].target = rm[src].target;
			for(int n : rm[s].owned) nodes[n].owner = s;
			rm[src].owned.clear();
			lib->rmMoveAssign(s, src);
			log << "(r" << s << "<-r" << src << ")";
			break;
		}
		case R_SWAP: {
			int o2 = ((op.b % kRemovers) + kRemovers) % kRemovers;
			if(! impl->hasScoped() || ! rm[s].alive || ! rm[o2].alive) break;
			std::swap(rm[s].owned, rm[o2].owned);
			std::swap(rm[s].target, rm[o2].target);
			for(int n : rm[s].owned) nodes[n].owner = s;
			for(int n : rm[o2].owned) nodes[n].owner = o2;
			// limbo bookkeeping follows the objects, which is what the statement names ("all removers involved")
			lib->rmSwap(s, o2);
			break;
		}
		case R_HASANY: {
			int obj = op.a & 1, key = keyOf(op.c);
			bool expect = false;
			if(impl->hasKeys()) expect = ! lists[obj][key].empty();
			else for(int k = 0; k < kKeys; ++k) if(! lists[obj][k].empty()) expect = true;
			bool anyLimbo = false;
			for(int k = 0; k < kKeys; ++k) for(int n : lists[obj][k].nodes) if(nodes[n].inLimbo) anyLimbo = true;
			struct Flag { Flag() { g_keyCompareFaults = true; } ~Flag() { g_keyCompareFaults = false; } } flag;
			bool r = lib->hasAny(obj, key);
			log << "(o" << obj << "k" << key << ")=" << r;
			if(! anyLimbo && r != expect) fail("remover.hasAny", prop, "hasAnyListener / ! empty() returned " + std::to_string(r) + ", model says " + std::to_string(expect));
			break;
		}
		case R_TRIGGER: {
			if((int)frames.size() >= kMaxDepth || fuel <= 0) { log << "(skip)"; break; }
			int obj = op.a & 1, key = keyOf(op.c);
			bool queued = impl->canQueue() && (op.c & 2) && frames.empty();
			TFrame f; f.obj = obj; f.key = key; f.arg = op.b;
			f.inv.begin(lists[obj][key]);
			if(! frames.empty() && frames.back().obj == obj && frames.back().key == key) reentrant = true;
			if(lists[obj][key].nodes.size() >= 2) otherPresent = true;
			frames.push_back(f);
			log << "(o" << obj << "k" << key << "){";
			bool thrown = false;
			if(frames.size() == 1) {
				// a listener may leave by an exception (C16 programs): the trigger is over, whatever was not called stays uncalled,
				// and the invocation that threw counts as an invocation
				const size_t base = frames.size();
				try { lib->trigger(obj, key, op.b, queued); }
				catch(const ListenerThrow &) { thrown = true; listenerThrew = true; frames.resize(base); log << " !threw"; }
			}
			else lib->trigger(obj, key, op.b, queued);
			log << "}";
			if(! failed && ! thrown) {
				TFrame & fr = frames.back();
				int due = dueNode(fr);
				if(due >= 0) fail("remover.trigger.missed", prop, "trigger returned without calling listener n" + std::to_string(due));
			}
			frames.pop_back();
			break;
		}
		default: break;
		}
		(void)depth;
	}

	// next node due in the frame; limbo listeners may or may not still be attached: they are skipped here and
	// recognised when they are actually called
	int dueNode(TFrame & f) {
		for(;;) {
			int d = f.inv.due(lists[f.obj][f.key]);
			if(d >= 0 && nodes[d].inLimbo) { ++f.inv.cursor; continue; }
			return d;
		}
	}

	bool onCondition(int cb, int arg, bool hasArg) {
		if(failed) return false;
		if(frames.empty()) { fail("remover.cond.spurious", "C16", "condition evaluated outside any trigger"); return false; }
		TFrame & f = frames.back();
		Node & nd = nodes[cb];
		int due = dueNode(f);
		if(due != cb || nd.kind != N_COND) { fail("remover.cond.order", "C16", "condition of listener n" + std::to_string(cb) + " evaluated, but the listener due is " + std::to_string(due)); return false; }
		if(nd.condSeenThisTrigger) { fail("remover.cond.twice", "C16", "condition of listener n" + std::to_string(cb) + " evaluated twice for one trigger"); return false; }
		if(hasArg != nd.condWithArg || (hasArg && arg != f.arg)) { fail("remover.cond.args", "C16", "condition of listener n" + std::to_string(cb) + " did not receive the trigger's argument"); return false; }
		nd.condSeenThisTrigger = true;
		bool bit = ((nd.condBits >> (nd.triggers % 6)) & 1) != 0;
		log << " ?n" << cb << "=" << bit;
		if(bit) {
			detach(cb);
			if(frames.size() >= 2) condTrueNested = true;
		}
		return bit;
	}

	void onListener(int cb, int arg) {
		if(failed) return;
		if(frames.empty()) { fail("remover.listener.spurious", prop, "listener n" + std::to_string(cb) + " called outside any trigger"); return; }
		size_t fi = frames.size() - 1;
		TFrame & f = frames[fi];
		Node & nd = nodes[cb];
		int node = -1;
		if(nd.inLimbo) {
			// displaced by a move assignment and still attached: allowed while a remover involved is alive
			if(nd.obj == f.obj && nd.key == f.key) node = cb;
		}
		else {
			if(nd.kind == N_COND) {
				// the condition ran first and may have detached the node: the cursor still points at it
				if(! nd.condSeenThisTrigger) { fail("remover.cond.missing", "C16", "listener n" + std::to_string(cb) + " called without evaluating its condition"); return; }
				nd.condSeenThisTrigger = false;
				size_t c = f.inv.cursor;
				while(c < f.inv.snap.size() && f.inv.snap[c] != cb && ! lists[f.obj][f.key].has(f.inv.snap[c])) ++c;
				if(c < f.inv.snap.size() && f.inv.snap[c] == cb) { f.inv.cursor = c; node = cb; }
			}
			else {
				int due = dueNode(f);
				if(due == cb) node = cb;
			}
		}
		if(node < 0) {
			fail("remover.trigger.listener", prop, "listener n" + std::to_string(cb) + " was called although it is not due (detached, already exhausted, or out of order); due is n" + std::to_string(dueNode(f)));
			return;
		}
		if(arg != f.arg) { fail("remover.trigger.args", prop, "listener n" + std::to_string(cb) + " received " + std::to_string(arg) + ", trigger passed " + std::to_string(f.arg)); return; }
		if(! nd.inLimbo) f.inv.advance(cb);
		++nd.triggers;
		if(nd.kind == N_COUNTER) {
			long long limit = nd.n < 1 ? 1 : nd.n;
			if(nd.triggers >= limit) detach(cb);
		}
		log << " >n" << cb;
	}
	bool onListenerBody(int cb) {
		if(failed) return false;
		if(--fuel > 0) {
			const std::vector<Op> * body = bodies[cb];
			if(body && ! body->empty()) exec(*body, (int)frames.size(), cb);
		}
		log << " <";
		return ! failed && nodes[cb].throwAt > 0 && nodes[cb].triggers == nodes[cb].throwAt;
	}

	// after every top-level op: what is attached, in order (limbo listeners may or may not be)
	void observe() {
		for(int o = 0; o < kObjs && ! failed; ++o) for(int k = 0; k < kKeys && ! failed; ++k) {
			if(k > 0 && ! impl->hasKeys()) continue;
			std::vector<int> got;
			impl->enumerate(o, k, got);
			std::vector<int> & model = lists[o][k].nodes;
			// walk both; limbo nodes absent from `got` are adopted as detached
			std::vector<int> kept;
			size_t gi = 0;
			bool ok = true;
			for(int n : model) {
				if(gi < got.size() && got[gi] == n) { kept.push_back(n); ++gi; }
				else if(nodes[n].inLimbo) { nodes[n].inLimbo = false; nodes[n].limbo.clear(); nodes[n].owner = -1; }
				else { ok = false; break; }
			}
			if(ok && gi != got.size()) ok = false;
			if(! ok) {
				std::ostringstream m;
				m << "object " << o << " key " << k << " holds [";
				for(int g : got) m << " n" << g;
				m << " ] model [";
				for(int n : model) m << " n" << n << (nodes[n].owner >= 0 ? "(r" + std::to_string(nodes[n].owner) + ")" : std::string());
				m << " ]";
				fail("remover.attached", prop, m.str());
				return;
			}
			model = kept;
		}
		if(! failed && ledger().isFlagged()) fail("ledger.flag", "C08", ledger().message());
	}

	void run() {
		c16 = prop == "C16";
		int kind = prog.params.empty() ? 0 : prog.params[0];
		kind = ((kind % 6) + 6) % 6;
		if(! c16 && (kind == 3 || kind == 4)) kind = kind - 3; // the heterogeneous targets have no ScopedRemover
		impl.reset(makeTarget(kind));
		lib.p = impl.get();
		FaultPause harnessCode;
		if(! c16 && impl->hasScoped()) {
			// three removers to begin with: two on object 0, one on object 1
			for(int s0 = 0; s0 < kRemovers; ++s0) {
				int mode = s0 == 2 ? 2 : 1;
				rm[s0] = MRemover(); rm[s0].alive = true; rm[s0].target = mode - 1;
				impl->rmNew(s0, mode);
			}
		}
		exec(prog.ops, 0, -1);
		if(! failed) {
			// all removers go away: only direct listeners may remain
			for(int s = 0; s < kRemovers && ! failed; ++s) {
				if(! rm[s].alive) continue;
				resetModel(s);
				rm[s].alive = false;
				impl->rmDestroy(s);
				removerGone(s);
				observe();
			}
		}
		frames.clear();
		impl.reset();
		if(! failed) {
			if(ledger().isFlagged()) fail("ledger.flag", "C08", ledger().message());
			else if(ledger().totalLive() != 0) fail("ledger.leak", "C08", std::to_string(ledger().totalLive()) + " tracked object(s) alive after all targets were destroyed");
		}
	}
};

void deliverListener(int cb, int arg)
{
	// the wrapper (counter / conditional remover) has already done its accounting when the user listener is entered:
	// the model does the same before the listener may throw (C09)
	{ FaultPause fp, fp2; if(g_r) g_r->onListener(cb, arg); }
	faults().point(1);
	bool leaveByException = false;
	{
		FaultPause fp, fp2;
		if(g_r) leaveByException = g_r->onListenerBody(cb);
	}
	if(leaveByException) throw ListenerThrow();
}
bool deliverCondition(int cb, int arg, bool hasArg)
{
	faults().point(5);
	FaultPause fp, fp2;
	return g_r ? g_r->onCondition(cb, arg, hasArg) : false;
}

Grammar makeGrammar(const std::string & prop)
{
	Grammar g;
	const bool c16 = prop == "C16";
	const bool nested = prop == "C15";
	g.params = { ArgSpec(0, 5), ArgSpec(0, 0) };
	g.maxDepth = 3;
	g.maxTotalOps = 120;
	Level top;
	top.minOps = 1;
	top.maxOps = 50;
	const ArgSpec rmv(0, kRemovers - 1), H(0, 40, -4, -1, 20), any(0, 1000);
	if(! c16) {
		top.kinds = {
			{ R_NEW, "newRemover", 10, rmv, ArgSpec(0, 2, 1, 2, 70), ArgSpec(0, 0), -1, 0 },
			// C15: listeners carry scripts (below), so removers are also used from inside a running dispatch, where a listener
			// detached directly is still kept alive by the traversal and its handle has not expired yet
			{ R_ADD, "addThroughRemover", 24, rmv, ArgSpec(0, 2), ArgSpec(0, 80), nested ? 1 : -1, nested ? 3 : 0 },
			{ R_ADD_DIRECT, "addDirect", 6, ArgSpec(0, 1), ArgSpec(0, 2), ArgSpec(0, 80), nested ? 1 : -1, nested ? 3 : 0 },
			{ R_REMOVE, "removeThroughRemover", 8, rmv, H, ArgSpec(0, 0), -1, 0 },
			{ R_REMOVE_DIRECT, "removeDirect", 3, ArgSpec(0, 0), H, ArgSpec(0, 0), -1, 0 },
			{ R_RESET, "reset", 3, rmv, ArgSpec(0, 0), ArgSpec(0, 0), -1, 0 },
			{ R_SETTARGET, "setTarget", 4, rmv, ArgSpec(0, 1), ArgSpec(0, 0), -1, 0 },
			{ R_MOVECTOR, "moveConstruct", 5, rmv, ArgSpec(0, 0), ArgSpec(0, 0), -1, 0 },
			{ R_MOVEASSIGN, "moveAssign", 8, rmv, rmv, ArgSpec(0, 0), -1, 0 },
			{ R_SWAP, "swap", 5, rmv, rmv, ArgSpec(0, 0), -1, 0 },
			{ R_DESTROY, "destroyRemover", 6, rmv, ArgSpec(0, 0), ArgSpec(0, 0), -1, 0 },
			{ R_TRIGGER, "trigger", 8, ArgSpec(0, 1), any, ArgSpec(0, 3), -1, 0 },
			{ R_HASANY, "hasAnyListener", 3, ArgSpec(0, 1), ArgSpec(0, 0), ArgSpec(0, 80), -1, 0 },
		};
	}
	else {
		top.kinds = {
			{ R_ADD_COUNTER, "addCounter", 14, ArgSpec(0, 2000), ArgSpec(0, 2), ArgSpec(0, 80), 1, 3 },
			{ R_ADD_COND, "addConditional", 12, ArgSpec(0, 1023), ArgSpec(0, 2), ArgSpec(0, 80), 1, 3 }, // bits 8-9: the listener throws on its 1st / 2nd call
			{ R_ADD_DIRECT, "addDirect", 8, ArgSpec(0, 1), ArgSpec(0, 2), ArgSpec(0, 80), 1, 3 },
			{ R_REMOVE_DIRECT, "removeDirect", 4, ArgSpec(0, 0), H, ArgSpec(0, 0), -1, 0 },
			{ R_TRIGGER, "trigger", 30, ArgSpec(0, 1), any, ArgSpec(0, 3), -1, 0 },
		};
		Level body;
		body.kinds = {
			{ R_TRIGGER, "trigger", 10, ArgSpec(0, 1), any, ArgSpec(0, 3), -1, 0 },
			{ R_REMOVE_DIRECT, "removeDirect", 4, ArgSpec(0, 0), ArgSpec(0, 40, -4, -1, 50), ArgSpec(0, 0), -1, 0 },
			{ R_ADD_DIRECT, "addDirect", 2, ArgSpec(0, 1), ArgSpec(0, 2), ArgSpec(0, 80), -1, 0 },
			{ R_ADD_COUNTER, "addCounter", 2, ArgSpec(0, 2000), ArgSpec(0, 2), ArgSpec(0, 80), -1, 0 },
		};
		g.levels.push_back(top);
		g.levels.push_back(body);
		return g;
	}
	g.levels.push_back(top);
	if(nested) {
		Level body;
		const ArgSpec HS(0, 40, -4, -1, 50);
		body.kinds = {
			{ R_REMOVE, "removeThroughRemover", 6, rmv, HS, ArgSpec(0, 0), -1, 0 },
			{ R_REMOVE_DIRECT, "removeDirect", 5, ArgSpec(0, 0), HS, ArgSpec(0, 0), -1, 0 },
			{ R_ADD, "addThroughRemover", 3, rmv, ArgSpec(0, 2), ArgSpec(0, 80), -1, 0 },
			{ R_ADD_DIRECT, "addDirect", 2, ArgSpec(0, 1), ArgSpec(0, 2), ArgSpec(0, 80), -1, 0 },
			{ R_TRIGGER, "trigger", 4, ArgSpec(0, 1), any, ArgSpec(0, 3), -1, 0 },
			{ R_RESET, "reset", 1, rmv, ArgSpec(0, 0), ArgSpec(0, 0), -1, 0 },
		};
		g.levels.push_back(body);
	}
	return g;
}

const Grammar & grammar(const std::string & prop)
{
	static std::map<std::string, Grammar> cache;
	auto it = cache.find(prop);
	if(it == cache.end()) it = cache.insert(std::make_pair(prop, makeGrammar(prop))).first;
	return it->second;
}

long g_caseCounter = 0;

Verdict runOnce(const Program & p, const std::string & prop, FaultPlan * plan)
{
	Verdict v;
	v.trace.reserve(4096);
	v.classes.reserve(16);
	ledger().reset();
	faults().reset();
	LeakScope scope;
	{
		Interp in(p, prop, v);
		in.plan = plan;
		g_r = &in;
		in.run();
		g_r = nullptr;
		auto cls = [&](bool b, const char * n) { if(b) v.classes.push_back(n); };
		cls(in.moveAssignBothOwn, "move_assign_between_owning_removers");
		cls(in.bothGoneAfter, "limbo_resolved_by_destruction");
		cls(in.nontrivCounter, "counter_le0_or_ge2");
		cls(in.reentrant, "reentrant_trigger");
		cls(in.condTrueNested, "condition_true_on_nested_trigger");
		cls(in.condBothForms, "condition_callable_with_and_without_arguments");
		cls(in.condIntResult, "condition_returning_an_int");
		cls(in.selfMoveAssign, "remover_move_assigned_from_itself");
		cls(in.listenerThrew, "wrapped_listener_left_by_an_exception");
		cls(in.removeDetachedInsideTrigger, "remover_asked_inside_a_trigger_for_a_listener_already_detached_directly");
		cls(in.otherPresent, "other_listeners_present");
		if(prop == "C15") v.nontrivial = in.moveAssignBothOwn;
		else v.nontrivial = ((in.nontrivCounter && in.reentrant) || in.condTrueNested) && in.otherPresent;
		const std::string full = in.log.str();
		v.trace.assign(full, 0, std::min<size_t>(full.size(), 4000));
	}
	ledger().reset();
	if(v.ok && (scope.grew() || (++g_caseCounter & 1023) == 0)) {
		v.classes.push_back("lsan_confirmation_run");
		if(confirmLeak()) v.fail("lsan.leak", "C08", "LeakSanitizer: memory allocated during the case is unreachable afterwards", "lsan.leak");
	}
	if(! v.ok && plan && ! plan->counting && (v.prop == "C08" || v.prop == "C15" || v.prop == "C16")) v.prop += ",C09";
	return v;
}

Verdict run(const Program & p, const std::string & prop)
{
	// C09 uses both program classes: ownership histories (even seeds of params[1]) and trigger histories
	if(prop != "C09") return runOnce(p, prop, nullptr);
	const std::string inner = (p.params.size() > 1 && (p.params[1] & 1)) ? "C16" : "C15";
	return faultOrchestrate(p, [&](const Program & q2, FaultPlan & plan, Verdict & out) { out = runOnce(q2, inner, &plan); });
}

} // namespace

namespace vf {
const Harness g_harness = { "remover", &grammar, &run, &kindName, nullptr };
}
