// Harness `anyid` (C18): AnyId algebraic laws over mixed value types incl. digest collisions, and dispatch through
// std::map / std::unordered_map keyed by AnyId. Exhaustive over pairs/triples of a 26-value pool per configuration.
#include <eventpp/utilities/anyid.h>
#include <eventpp/eventdispatcher.h>

#include "common/harness.h"

#include <map>
#include <string>
#include <unordered_map>

namespace {
using namespace vf;

// ---- digesters
template <typename T> struct Mod4Digest { std::size_t operator() (const T & v) const { return std::hash<T>()(v) % 4; } };
template <typename T> struct ConstDigest { std::size_t operator() (const T &) const { return 7; } };
// a Digester whose result type is not std::size_t: quarters in [0, 4), so distinct digests share their integer part
template <typename T> struct FracDigest { double operator() (const T & v) const { return (double)(std::hash<T>()(v) % 16) / 4.0; } };

// ---- storages
enum Color { red = 1, green = 5 };
struct UserKey { int a; bool operator == (const UserKey & o) const { return a == o.a; } };
} // namespace
namespace std {
template <> struct hash< ::UserKey> { size_t operator() (const ::UserKey & k) const { return (size_t)k.a * 2654435761u; } };
template <> struct hash< ::Color> { size_t operator() (::Color c) const { return (size_t)(int)c; } };
}
namespace {

// value-storing storage supporting both == and <: (type tag, canonical text)
struct TaggedStorage
{
	int tag = 0;
	std::string text;
	TaggedStorage() {}
	TaggedStorage(const int & v) : tag(1), text(std::to_string(v)) {}
	TaggedStorage(const long & v) : tag(2), text(std::to_string(v)) {}
	TaggedStorage(const unsigned & v) : tag(3), text(std::to_string(v)) {}
	TaggedStorage(const char & v) : tag(4), text(1, v) {}
	TaggedStorage(const bool & v) : tag(5), text(v ? "1" : "0") {}
	TaggedStorage(const Color & v) : tag(6), text(std::to_string((int)v)) {}
	TaggedStorage(const std::string & v) : tag(7), text(v) {}
	TaggedStorage(const UserKey & v) : tag(8), text(std::to_string(v.a)) {}
	friend bool operator == (const TaggedStorage & a, const TaggedStorage & b) { return a.tag == b.tag && a.text == b.text; }
	friend bool operator < (const TaggedStorage & a, const TaggedStorage & b) { return a.tag < b.tag || (a.tag == b.tag && a.text < b.text); }
};
// value-storing storage that forgets the type: every arithmetic value is kept as a double, so ids built from values of
// different types can hold equal stored values while their digests differ (int 5 and UserKey{5}, whose hash is scaled)
struct NumStorage
{
	bool isText = false;
	double num = 0;
	std::string text;
	NumStorage() {}
	NumStorage(const int & v) : num(v) {}
	NumStorage(const long & v) : num((double)v) {}
	NumStorage(const unsigned & v) : num(v) {}
	NumStorage(const char & v) : num(v) {}
	NumStorage(const bool & v) : num(v ? 1 : 0) {}
	NumStorage(const Color & v) : num((int)v) {}
	NumStorage(const std::string & v) : isText(true), text(v) {}
	NumStorage(const UserKey & v) : num(v.a) {}
	friend bool operator == (const NumStorage & a, const NumStorage & b) { return a.isText == b.isText && (a.isText ? a.text == b.text : a.num == b.num); }
	friend bool operator < (const NumStorage & a, const NumStorage & b) { return a.isText != b.isText ? ! a.isText : (a.isText ? a.text < b.text : a.num < b.num); }
};
// opaque storage supporting neither
struct OpaqueStorage
{
	std::string junk;
	OpaqueStorage() {}
	template <typename T> OpaqueStorage(const T &) : junk("x") {}
};

// the value pool: mixed types chosen to collide (int 5 / long 5 / unsigned 5 / Color green, values equal mod 4, equal strings, "")
const int kPool = 26;
struct Val { int type; long num; const char * str; };
const Val kVals[kPool] = {
	{ 0, 5, nullptr }, { 0, 9, nullptr }, { 0, 0, nullptr }, { 0, -1, nullptr }, { 0, 1, nullptr },
	{ 1, 5, nullptr }, { 1, 13, nullptr }, { 1, 0, nullptr },
	{ 2, 5, nullptr }, { 2, 4294967295l, nullptr },
	{ 3, 'a', nullptr }, { 3, 5, nullptr },
	{ 4, 1, nullptr }, { 4, 0, nullptr },
	{ 5, 5, nullptr }, { 5, 1, nullptr },
	{ 6, 0, "" }, { 6, 0, "a" }, { 6, 0, "a" }, { 6, 0, "5" }, { 6, 0, "a long string that lives on the heap, variant A" },
	{ 7, 5, nullptr }, { 7, 9, nullptr }, { 7, 5, nullptr },
	// digests spread over the whole range of size_t (std::hash of a long is the value): 0, 6e18 and 12e18 are pairwise less
	// than half the range apart "going round", which an ordering by wrapped difference turns into a cycle
	{ 1, 6000000000000000000l, nullptr }, { 1, -6446744073709551616l, nullptr },
};

template <typename Id> Id makeId(int i)
{
	const Val & v = kVals[((i % kPool) + kPool) % kPool];
	switch(v.type) {
	case 0: return Id((int)v.num);
	case 1: return Id((long)v.num);
	case 2: return Id((unsigned)v.num);
	case 3: return Id((char)v.num);
	case 4: return Id(v.num != 0);
	case 5: return Id((Color)v.num);
	case 6: return Id(std::string(v.str));
	default: return Id(UserKey { (int)v.num });
	}
}
// same value (type and content): what a value-storing comparable storage must distinguish by
bool sameValue(int a, int b)
{
	const Val & x = kVals[a], & y = kVals[b];
	if(x.type != y.type) return false;
	if(x.type == 6) return std::string(x.str) == y.str;
	return x.num == y.num;
}

struct ILaws
{
	virtual ~ILaws() {}
	virtual bool eq(int a, int b) = 0;
	virtual bool lt(int a, int b) = 0;
	virtual size_t hash(int a) = 0;
	virtual long double digest(int a) = 0;
	// what the Digester returns for the value itself, computed by the harness (the id's digest must be exactly that)
	virtual long double expectedDigest(int a) = 0;
	// an id handed on by copy, by move, as a const rvalue, by assignment or inside a map's value_type stays the same id; "" = yes
	virtual std::string copiesCoherent(int a) = 0;
	virtual bool comparableStorage() const = 0;
	// what the (comparable) storage itself calls equal; the default is "same type and same content"
	virtual bool storageEqual(int a, int b) const = 0;
	// dispatch: register listeners under ids `regs`, dispatch id d through an ordered and a hashed dispatcher; returns the listeners run
	virtual std::vector<int> dispatch(const std::vector<int> & regs, int d, bool hashed) = 0;
};

template <typename Storage> struct StorageEq { static bool eq(int a, int b) { return sameValue(a, b); } };
template <> struct StorageEq<NumStorage>
{
	static bool eq(int a, int b) {
		const Val & x = kVals[a], & y = kVals[b];
		if((x.type == 6) != (y.type == 6)) return false;
		if(x.type == 6) return std::string(x.str) == y.str;
		auto num = [](const Val & v) -> double { return v.type == 2 ? (double)(unsigned)v.num : v.type == 3 ? (double)(char)v.num : v.type == 4 ? (v.num != 0 ? 1.0 : 0.0) : v.type == 0 || v.type == 5 || v.type == 7 ? (double)(int)v.num : (double)v.num; };
		return num(x) == num(y);
	}
};
template <template <typename> class Digester, typename Storage, bool Comparable>
struct Laws : ILaws
{
	using Id = eventpp::AnyId<Digester, Storage>;
	bool eq(int a, int b) override { return makeId<Id>(a) == makeId<Id>(b); }
	static const char * sameId(const Id & c, const Id & src) {
		if(! (c == src) || ! (src == c)) return "is not == the original";
		if(c < src || src < c) return "is ordered before / after the original";
		if(std::hash<Id>()(c) != std::hash<Id>()(src)) return "hashes differently from the original";
		if(c.getDigest() != src.getDigest()) return "has another digest than the original";
		return nullptr;
	}
	std::string copiesCoherent(int a) override {
		const Id src = makeId<Id>(a);
		const char * w;
		{ Id c(src); if((w = sameId(c, src))) return std::string("a copy ") + w; }
		{ Id t(src); Id c(std::move(t)); if((w = sameId(c, src))) return std::string("a moved-to id ") + w; }
		{ Id c = makeId<Id>(0); c = src; if((w = sameId(c, src))) return std::string("an assigned id ") + w; }
		{ Id c = makeId<Id>(0); Id t(src); c = std::move(t); if((w = sameId(c, src))) return std::string("a move-assigned id ") + w; }
		// const rvalues: only for a Storage that could be built from an id at all (with any other Storage a constructor template
		// that wrongly captured a const rvalue id would not compile, which is not something this check can report)
		return constRvalues(src, std::integral_constant<bool, std::is_constructible<Storage, const Id &>::value>());
	}
	static std::string constRvalues(const Id &, std::false_type) { return std::string(); }
	static std::string constRvalues(const Id & src, std::true_type) {
		const char * w;
		{ const Id t(src); Id c(std::move(t)); if((w = sameId(c, src))) return std::string("an id constructed from a const rvalue ") + w; }
		{ std::pair<const Id, int> p1(src, 1); std::pair<const Id, int> p2(std::move(p1)); if((w = sameId(p2.first, src))) return std::string("the key of a moved map element (std::pair<const Id, V>) ") + w; }
		{ std::map<Id, int> m1; m1.insert(std::make_pair(src, 1)); std::map<Id, int> m2(std::make_move_iterator(m1.begin()), std::make_move_iterator(m1.end()));
			if(m2.find(src) == m2.end()) return "an ordered map filled from moved elements no longer finds the id"; }
		return std::string();
	}
	bool lt(int a, int b) override { return makeId<Id>(a) < makeId<Id>(b); }
	size_t hash(int a) override { return std::hash<Id>()(makeId<Id>(a)); }
	long double digest(int a) override { return (long double)makeId<Id>(a).getDigest(); }
	long double expectedDigest(int a) override {
		const Val & v = kVals[((a % kPool) + kPool) % kPool];
		switch(v.type) {
		case 0: return (long double)Digester<int>()((int)v.num);
		case 1: return (long double)Digester<long>()((long)v.num);
		case 2: return (long double)Digester<unsigned>()((unsigned)v.num);
		case 3: return (long double)Digester<char>()((char)v.num);
		case 4: return (long double)Digester<bool>()(v.num != 0);
		case 5: return (long double)Digester<Color>()((Color)v.num);
		case 6: return (long double)Digester<std::string>()(std::string(v.str));
		default: return (long double)Digester<UserKey>()(UserKey { (int)v.num });
		}
	}
	bool comparableStorage() const override { return Comparable; }
	bool storageEqual(int a, int b) const override { return StorageEq<Storage>::eq(a, b); }
	struct PolMap { template <typename K, typename V> using Map = std::map<K, V>; };
	struct PolHash { template <typename K, typename V> using Map = std::unordered_map<K, V>; };
	template <typename Pol> std::vector<int> run(const std::vector<int> & regs, int d) {
		eventpp::EventDispatcher<Id, void (), Pol> disp;
		std::vector<int> ran;
		for(size_t i = 0; i < regs.size(); ++i) {
			const int tag = (int)i;
			disp.appendListener(makeId<Id>(regs[i]), [&ran, tag]() { ran.push_back(tag); });
		}
		disp.dispatch(makeId<Id>(d));
		return ran;
	}
	std::vector<int> dispatch(const std::vector<int> & regs, int d, bool hashed) override {
		return hashed ? run<PolHash>(regs, d) : run<PolMap>(regs, d);
	}
};

const int kConfigs = 12;
ILaws * makeLaws(int cfg)
{
	switch(cfg) {
	case 0: return new Laws<std::hash, eventpp::EmptyAnyStorage, false>();
	case 1: return new Laws<std::hash, OpaqueStorage, false>();
	case 2: return new Laws<std::hash, TaggedStorage, true>();
	case 3: return new Laws<Mod4Digest, eventpp::EmptyAnyStorage, false>();
	case 4: return new Laws<Mod4Digest, OpaqueStorage, false>();
	case 5: return new Laws<Mod4Digest, TaggedStorage, true>();
	case 6: return new Laws<ConstDigest, eventpp::EmptyAnyStorage, false>();
	case 7: return new Laws<ConstDigest, OpaqueStorage, false>();
	case 8: return new Laws<ConstDigest, TaggedStorage, true>();
	case 9: return new Laws<std::hash, NumStorage, true>();
	case 10: return new Laws<FracDigest, eventpp::EmptyAnyStorage, false>();
	default: return new Laws<FracDigest, TaggedStorage, true>();
	}
}

enum { I_PAIR = 1, I_TRIPLE, I_DISPATCH };
const char * kindName(int k) { static const char * n[] = { "?", "pairLaws", "tripleLaws", "dispatch" }; return k >= 1 && k <= 3 ? n[k] : "?"; }

struct Checker
{
	ILaws & l;
	Verdict & v;
	bool collision = false;
	std::string nameOf(int i) const {
		const Val & x = kVals[i];
		static const char * t[] = { "int", "long", "unsigned", "char", "bool", "enum", "string", "user" };
		return std::string(t[x.type]) + "(" + (x.type == 6 ? std::string("\"") + x.str + "\"" : std::to_string(x.num)) + ")";
	}
	void pair(int a, int b) {
		const bool e = l.eq(a, b), e2 = l.eq(b, a), lab = l.lt(a, b), lba = l.lt(b, a);
		const std::string who = nameOf(a) + ", " + nameOf(b);
		if(! l.eq(a, a)) v.fail("anyid.eq.reflexive", "C18", "== is not reflexive for " + nameOf(a));
		if(l.digest(a) != l.expectedDigest(a)) v.fail("anyid.digest", "C18", "the digest stored in the id of " + nameOf(a) + " is not what the Digester returns for that value (" + std::to_string(l.digest(a)) + " vs " + std::to_string(l.expectedDigest(a)) + "): ids whose digests collide are no longer equal");
		{ std::string c = l.copiesCoherent(a); if(! c.empty()) v.fail("anyid.copy", "C18", "for the id of " + nameOf(a) + ": " + c); }
		if(l.lt(a, a)) v.fail("anyid.lt.irreflexive", "C18", "< is not irreflexive for " + nameOf(a));
		if(e != e2) v.fail("anyid.eq.symmetric", "C18", "== is not symmetric for " + who);
		if(lab && lba) v.fail("anyid.lt.asymmetric", "C18", "a<b and b<a both hold for " + who);
		if((! lab && ! lba) != e) v.fail("anyid.lt.eqclass", "C18", "incomparability under < and == disagree for " + who + " (==:" + std::to_string(e) + " a<b:" + std::to_string(lab) + " b<a:" + std::to_string(lba) + ")");
		if(e && l.hash(a) != l.hash(b)) v.fail("anyid.hash", "C18", "equal ids hash differently: " + who);
		const bool dEq = l.digest(a) == l.digest(b);
		if(dEq && ! sameValue(a, b)) collision = true;
		if(l.comparableStorage()) {
			// value-storing comparable storage: ids are equal exactly when digest and stored value are equal
			if(e != (dEq && l.storageEqual(a, b))) v.fail("anyid.eq.value", "C18", "with a comparable value storage, == is " + std::to_string(e) + " for " + who + " (digests equal: " + std::to_string(dEq) + ", stored values equal: " + std::to_string(l.storageEqual(a, b)) + ")");
		}
		else if(e != dEq) v.fail("anyid.eq.digest", "C18", "without a comparable storage, == must be digest equality: " + who);
	}
	void triple(int a, int b, int c) {
		if(l.eq(a, b) && l.eq(b, c) && ! l.eq(a, c)) v.fail("anyid.eq.transitive", "C18", "== is not transitive for " + nameOf(a) + ", " + nameOf(b) + ", " + nameOf(c));
		if(l.lt(a, b) && l.lt(b, c) && ! l.lt(a, c)) v.fail("anyid.lt.transitive", "C18", "< is not transitive for " + nameOf(a) + ", " + nameOf(b) + ", " + nameOf(c));
		const bool iab = ! l.lt(a, b) && ! l.lt(b, a), ibc = ! l.lt(b, c) && ! l.lt(c, b), iac = ! l.lt(a, c) && ! l.lt(c, a);
		if(iab && ibc && ! iac) v.fail("anyid.lt.incomparable.transitive", "C18", "incomparability is not transitive for " + nameOf(a) + ", " + nameOf(b) + ", " + nameOf(c));
	}
	void dispatch(const std::vector<int> & regs, int d) {
		std::vector<int> expect;
		for(size_t i = 0; i < regs.size(); ++i) if(l.eq(regs[i], d)) expect.push_back((int)i);
		for(int hashed = 0; hashed < 2; ++hashed) {
			std::vector<int> ran = l.dispatch(regs, d, hashed != 0);
			// listeners registered under == ids share one list: order of registration
			if(ran != expect) {
				std::string m = std::string(hashed ? "unordered_map" : "map") + " dispatcher: dispatching " + nameOf(d) + " ran listeners [";
				for(int r : ran) m += " " + nameOf(regs[r]);
				m += " ] but the ids == to it are [";
				for(int r : expect) m += " " + nameOf(regs[r]);
				v.fail("anyid.dispatch", "C18", m + " ]");
			}
		}
		for(size_t i = 0; i < regs.size(); ++i) if(l.digest(regs[i]) == l.digest(d) && ! sameValue(regs[i], d)) collision = true;
	}
};

Grammar makeGrammar()
{
	Grammar g;
	g.params = { ArgSpec(0, kConfigs - 1) };
	g.maxDepth = 2;
	g.maxTotalOps = 40;
	Level top;
	top.minOps = 1;
	top.maxOps = 10;
	const ArgSpec val(0, kPool - 1);
	top.kinds = {
		{ I_PAIR, "pairLaws", 4, val, val, ArgSpec(0, 0), -1, 0 },
		{ I_TRIPLE, "tripleLaws", 4, val, val, val, -1, 0 },
		{ I_DISPATCH, "dispatch", 6, val, ArgSpec(0, 0), ArgSpec(0, 0), 1, 6 },
	};
	g.levels.push_back(top);
	Level regs;
	regs.kinds = { { I_PAIR, "register", 1, val, ArgSpec(0, 0), ArgSpec(0, 0), -1, 0 } };
	g.levels.push_back(regs);
	return g;
}
const Grammar & grammar(const std::string &) { static Grammar g = makeGrammar(); return g; }

Verdict run(const Program & p, const std::string &)
{
	Verdict v;
	const int cfg = p.params.empty() ? 0 : ((p.params[0] % kConfigs) + kConfigs) % kConfigs;
	std::unique_ptr<ILaws> l(makeLaws(cfg));
	Checker c { *l, v };
	auto idx = [](int a) { return ((a % kPool) + kPool) % kPool; };
	for(const Op & op : p.ops) {
		if(! v.ok) break;
		if(op.kind == I_PAIR) c.pair(idx(op.a), idx(op.b));
		else if(op.kind == I_TRIPLE) { c.pair(idx(op.a), idx(op.b)); c.triple(idx(op.a), idx(op.b), idx(op.c)); }
		else if(op.kind == I_DISPATCH) {
			std::vector<int> regs;
			for(const Op & r : op.body) regs.push_back(idx(r.a));
			c.dispatch(regs, idx(op.a));
		}
	}
	if(c.collision) v.classes.push_back("digest_collision_between_different_values");
	if(cfg % 3 == 2) v.classes.push_back("comparable_value_storage");
	v.nontrivial = c.collision;
	v.trace = "configuration " + std::to_string(cfg);
	return v;
}

// bounded-exhaustive: every pair and triple of the pool, every configuration; plus every (registered pair, dispatched id)
std::string enumerate(const std::string &, const std::function<bool (const Program &)> & sink)
{
	for(int cfg = 0; cfg < kConfigs; ++cfg) {
		for(int a = 0; a < kPool; ++a) {
			Program p;
			p.params = { cfg };
			for(int b = 0; b < kPool; ++b) for(int c2 = 0; c2 < kPool; ++c2) { Op o; o.kind = I_TRIPLE; o.a = a; o.b = b; o.c = c2; p.ops.push_back(o); }
			if(! sink(p)) return "aborted at the first failure";
		}
		for(int d = 0; d < kPool; ++d) {
			Program p;
			p.params = { cfg };
			for(int a = 0; a < kPool; ++a) for(int b = a; b < kPool; b += 5) {
				Op o; o.kind = I_DISPATCH; o.a = d;
				Op r1; r1.kind = I_PAIR; r1.a = a; Op r2; r2.kind = I_PAIR; r2.a = b; Op r3; r3.kind = I_PAIR; r3.a = (a + b) % kPool;
				o.body = { r1, r2, r3 };
				p.ops.push_back(o);
			}
			if(! sink(p)) return "aborted at the first failure";
		}
	}
	return "10 configurations (3 digesters x 3 storages, and std::hash with a storage that forgets the type) x all 26^2 pairs and 26^3 triples of the value pool, plus dispatches of every id against registered triples";
}

} // namespace

namespace vf {
const Harness g_harness = { "anyid", &grammar, &run, &kindName, &enumerate };
}
