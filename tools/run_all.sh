#!/bin/bash
# Run every registered check (quick tier by default) on the current tree; prints one line per property.
cd /verif
TIER=${1:-quick}
rc=0
for p in $(python3 -c "import sys; sys.path.insert(0,'lib'); import props; print(' '.join(sorted(props.PROPS)))"); do
  out=$(./check $p --tier $TIER 2>&1 | grep -E "^(OK|VIOLATION|BROKEN|KNOWN)" | head -3 | tr '\n' ' ')
  echo "$p: $out"
  case "$out" in OK*|KNOWN*) ;; *) rc=1;; esac
done
tools/validate.py | tail -2
exit $rc
