// AnyData<32>: instantiates the whole size x kind table for this capacity.
#include "h_anydata_impl.h"

namespace vfad {
#define VF_ROW(N) { &runCase<N, 0, 32>, &runCase<N, 1, 32>, &runCase<N, 2, 32>, &runCase<N, 3, 32>, &runCase<N, 4, 32>, &runCase<N, 5, 32> },
CaseFn caseTable32(int sizeIndex, int kind)
{
	static const CaseFn table[kNumSizes][6] = { VF_SIZES(VF_ROW) };
	return table[sizeIndex][kind];
}
} // namespace vfad
