// Harness `queue`: single-threaded EventQueue histories (C05), observer-in-listener half of C11, OrderedQueueList (C13),
// payload ownership (C08), copy/move of queues over dirty storage (C10). Lock-step with an independent model.
#include <eventpp/eventqueue.h>
#include <eventpp/utilities/orderedqueuelist.h>

#include "common/harness.h"
#include "common/ledger.h"
#include "common/checked.h"
#include "common/models.h"
#include "common/leak.h"
#include "common/faultmode.h"

#include <deque>
#include <memory>
#include <sstream>
#include <chrono>

namespace {

using namespace vf;

enum Kind {
	Q_ENQ = 1, Q_PROCESS, Q_PROCESSONE, Q_PROCESSIF, Q_PROCESSUNTIL, Q_PEEK, Q_TAKE, Q_CLEAR, Q_EMPTYQ,
	Q_APPENDL, Q_PREPENDL, Q_INSERTL, Q_REMOVEL, Q_WAITFOR0, Q_DQNPUSH, Q_DQNPOP, Q_DISPATCH, Q_WAIT,
	Q_NEWQ, Q_COPYCTOR, Q_COPYASSIGN, Q_MOVECTOR, Q_MOVEASSIGN, Q_SWAP, Q_DESTROY,
	Q_ENQ_BURST, // 18..40 events with few distinct keys at once (sorting more than a handful of equal keys)
	Q_MAX
};

const char * kindName(int k)
{
	static const char * names[] = { "?", "enqueue", "process", "processOne", "processIf", "processUntil", "peekEvent", "takeEvent", "clearEvents", "emptyQueue",
		"appendListener", "prependListener", "insertListener", "removeListener", "waitFor0", "dqnPush", "dqnPop", "dispatch", "wait",
		"newQueue", "copyCtor", "copyAssign", "moveCtor", "moveAssign", "swap", "destroy", "enqueueBurst" };
	return (k > 0 && k < Q_MAX) ? names[k] : "?";
}

const int kSlots = 3;
const int kKeys = 4;
const int kMaxDepth = 4;
const int kFuel = 300;

struct MEvent
{
	int serial = 0, key = 0, value = 0;
};

struct Interp;
Interp * g_q = nullptr;
void deliverListener(int cb, int key, int serial, int value, bool intact);
bool deliverPredicate(int serial, int value, bool intact, bool hasArgs);
// predicates count their own calls: the object handed to processIf / processUntil must be the one that is called for
// every event of that call (state kept inside a predicate must survive from event to event)
int g_predOwnCalls = 0;

std::string makeString(int serial, int value)
{
	// long enough to live on the heap
	return "s" + std::to_string(serial) + ";v" + std::to_string(value) + ";......................................";
}
bool parseString(const std::string & s, int & serial, int & value)
{
	return sscanf(s.c_str(), "s%d;v%d;", &serial, &value) == 2;
}

struct LCb : public LedgeredT<2>
{
	explicit LCb(int cb) : LedgeredT<2>(kCbBase + cb) {}
	int cb() const { return id - kCbBase; }
	void operator() (int key, Tracked t) const { touch(); deliverListener(cb(), key, t.serial(), t.value, t.intact()); Tracked stolen(std::move(t)); (void)stolen; }
	void operator() (const std::string & s, int v) const {
		touch();
		int serial = -1, value = -1;
		bool ok = parseString(s, serial, value);
		deliverListener(cb(), -1, serial, value, ok && value == v);
	}
	void operator() (int key, const std::unique_ptr<Tracked> & p) const { touch(); deliverListener(cb(), key, p ? p->serial() : -1, p ? p->value : -1, p && p->intact()); }
	void operator() (const Tracked & t) const { touch(); deliverListener(cb(), -1, t.serial(), t.value, t.intact()); }
};

struct PredArgs
{
	mutable int ownCalls = 0;
	bool operator() (int, const Tracked & t) const { return (g_predOwnCalls = ++ownCalls, deliverPredicate)(t.serial(), t.value, t.intact(), true); }
	bool operator() (const std::string & s, int v) const {
		int serial = -1, value = -1;
		bool ok = parseString(s, serial, value);
		return (g_predOwnCalls = ++ownCalls, deliverPredicate)(serial, value, ok && v == value, true);
	}
	bool operator() (int, const std::unique_ptr<Tracked> & p) const { return (g_predOwnCalls = ++ownCalls, deliverPredicate)(p ? p->serial() : -1, p ? p->value : -1, p && p->intact(), true); }
	bool operator() (const Tracked & t) const { return (g_predOwnCalls = ++ownCalls, deliverPredicate)(t.serial(), t.value, t.intact(), true); }
};
// a predicate that takes its arguments by value and keeps them: it owns copies, the queued event must stay intact
struct PredByValue
{
	mutable int ownCalls = 0;
	bool operator() (int, Tracked t) const { bool r = (g_predOwnCalls = ++ownCalls, deliverPredicate)(t.serial(), t.value, t.intact(), true); Tracked stolen(std::move(t)); (void)stolen; return r; }
	bool operator() (std::string s, int v) const {
		int serial = -1, value = -1;
		bool ok = parseString(s, serial, value);
		bool r = (g_predOwnCalls = ++ownCalls, deliverPredicate)(serial, value, ok && v == value, true);
		std::string stolen(std::move(s)); (void)stolen;
		return r;
	}
	bool operator() (int, const std::unique_ptr<Tracked> & p) const { return (g_predOwnCalls = ++ownCalls, deliverPredicate)(p ? p->serial() : -1, p ? p->value : -1, p && p->intact(), true); }
	bool operator() (const Tracked & t) const { return (g_predOwnCalls = ++ownCalls, deliverPredicate)(t.serial(), t.value, t.intact(), true); }
};
struct PredNoArgs
{
	mutable int ownCalls = 0;
	bool operator() () const { return (g_predOwnCalls = ++ownCalls, deliverPredicate)(-1, -1, true, false); }
};

// ---------------------------------------------------------------- implementation back end

struct IQ
{
	virtual ~IQ() {}
	virtual bool supportsPeek() const = 0;
	virtual bool supportsWait() const = 0;
	virtual bool seesKey() const = 0;
	virtual int ordered() const = 0; // 0 no, 1 ascending key, 2 descending key, 3 coarse key/2, 4 by value
	virtual void newQueue(int slot, int fill) = 0;
	virtual void destroyQueue(int slot) = 0;
	virtual void enqueue(int slot, const MEvent & e, int how) = 0;
	virtual bool process(int slot) = 0;
	virtual bool processOne(int slot) = 0;
	virtual bool processIf(int slot, int form) = 0;    // form: 0 arguments by reference, 1 no arguments, 2 arguments by value
	virtual bool processUntil(int slot, int form) = 0;
	virtual bool peek(int slot, MEvent & out, bool & intact) = 0;
	virtual bool take(int slot, MEvent & out, bool & intact, bool dispatchIt) = 0;
	virtual void clear(int slot) = 0;
	virtual bool emptyQ(int slot) = 0;
	virtual bool waitFor0(int slot) = 0;
	virtual void waitBlocking(int slot) = 0;
	virtual void dqnPush(int slot) = 0;
	virtual void dqnPop(int slot) = 0;
	virtual void dispatchDirect(int slot, const MEvent & e) = 0;
	virtual void appendL(int slot, int key, int cb) = 0;
	virtual void prependL(int slot, int key, int cb) = 0;
	virtual void insertL(int slot, int key, int cb, int h) = 0;
	virtual bool removeL(int slot, int key, int h) = 0;
	virtual bool hasAny(int slot, int key) = 0;
	virtual bool owns(int slot, int key, int h) = 0;
	virtual void forEach(int slot, int key, std::vector<std::pair<int, int> > & out) = 0;
	virtual void copyCtor(int src, int dst, int fill) = 0;
	virtual void copyAssign(int dst, int src) = 0;
	virtual void moveCtor(int src, int dst, int fill) = 0;
	virtual void moveAssign(int dst, int src) = 0;
	virtual void swapQ(int a, int b) = 0;
	virtual int harvest(int slot, int key, int expect) = 0;
	virtual size_t handleCount() const = 0;
};

struct GetEventFromTracked
{
	// a policy that derives the key from the argument must be handed the argument as the caller supplied it: a moved-from
	// payload (its content already forwarded into the queue) yields a key nobody listens to
	static int getEvent(const Tracked & t) { return t.isMoved() ? kKeys + 1 : (t.value & (kKeys - 1)); }
};

struct CmpDesc { template <typename T> bool operator() (const T & a, const T & b) const { return a.event > b.event; } };
struct CmpCoarse { template <typename T> bool operator() (const T & a, const T & b) const { return a.event / 2 < b.event / 2; } };
struct CmpByValue {
	template <typename T> bool operator() (const T & a, const T & b) const {
		std::get<0>(a.arguments).touch();
		std::get<0>(b.arguments).touch();
		return (std::get<0>(a.arguments).value >> 2) % 3 < (std::get<0>(b.arguments).value >> 2) % 3;
	}
};

template <int P> struct QProto;
template <> struct QProto<0> { using Sig = void (int, Tracked); };
template <> struct QProto<1> { using Sig = void (const std::string &, int); };
template <> struct QProto<2> { using Sig = void (int, const std::unique_ptr<Tracked> &); };
template <> struct QProto<3> { using Sig = void (const Tracked &); };

template <int P, typename Policies, int Ordered, bool Wait>
struct QImpl : IQ
{
	using Queue = eventpp::EventQueue<int, typename QProto<P>::Sig, Policies>;
	using Handle = typename Queue::Handle;
	using QE = typename Queue::QueuedEvent;
	using DQN = typename Queue::DisableQueueNotify;

	struct Slot
	{
		alignas(Queue) unsigned char buf[sizeof(Queue)];
		Queue * p = nullptr;
		std::vector<std::unique_ptr<DQN> > dqn;
	};
	Slot slots[kSlots];
	std::vector<Handle> handles;

	QImpl() { handles.reserve(4096); }
	~QImpl() override { for(int i = 0; i < kSlots; ++i) destroyQueue(i); }
	Queue & Q(int s) { return *slots[s].p; }
	Handle H(int h) const { return h >= 0 && (size_t)h < handles.size() ? handles[h] : Handle(); }

	bool supportsPeek() const override { return P != 2; }
	bool supportsWait() const override { return Wait; }
	bool seesKey() const override { return P == 0 || P == 2; }
	int ordered() const override { return Ordered; }

	void fillSlot(int slot, int fill) {
		static const unsigned char pat[4] = { 0x00, 0xff, 0xaa, 0x5c };
		memset(slots[slot].buf, pat[fill & 3], sizeof(Queue));
	}
	void newQueue(int slot, int fill) override { fillSlot(slot, fill); slots[slot].p = new (slots[slot].buf) Queue(); }
	void destroyQueue(int slot) override {
		if(slots[slot].p) {
			slots[slot].dqn.clear();
			slots[slot].p->~Queue();
			slots[slot].p = nullptr;
		}
	}

	void enq(Queue & q, const MEvent & e, int how, std::integral_constant<int, 0>) {
		if(how & 1) q.enqueue(e.key, Tracked(e.serial, e.value));
		else { Tracked t(e.serial, e.value); int k = e.key; q.enqueue(k, t); t.value = -777; t.chk = 0; k = -5; }
	}
	void enq(Queue & q, const MEvent & e, int how, std::integral_constant<int, 1>) {
		if(how & 1) q.enqueue(e.key, makeString(e.serial, e.value), e.value);
		else { std::string s = makeString(e.serial, e.value); int v = e.value; q.enqueue(e.key, s, v); s.assign("garbage-after-enqueue"); v = -1; }
	}
	void enq(Queue & q, const MEvent & e, int, std::integral_constant<int, 2>) {
		q.enqueue(e.key, std::unique_ptr<Tracked>(new Tracked(e.serial, e.value)));
	}
	void enq(Queue & q, const MEvent & e, int how, std::integral_constant<int, 3>) {
		if(how & 1) q.enqueue(Tracked(e.serial, e.value));
		else { Tracked t(e.serial, e.value); q.enqueue(t); t.value = -777; t.chk = 0; }
	}
	void enqueue(int slot, const MEvent & e, int how) override { enq(Q(slot), e, how, std::integral_constant<int, P>()); }

	bool process(int slot) override { return Q(slot).process(); }
	bool processOne(int slot) override { return Q(slot).processOne(); }
	bool processIf(int slot, int form) override { return form == 1 ? Q(slot).processIf(PredNoArgs()) : form == 2 ? Q(slot).processIf(PredByValue()) : Q(slot).processIf(PredArgs()); }
	bool processUntil(int slot, int form) override { return form == 1 ? Q(slot).processUntil(PredNoArgs()) : form == 2 ? Q(slot).processUntil(PredByValue()) : Q(slot).processUntil(PredArgs()); }

	static void readQE(const QE & qe, MEvent & out, bool & intact, std::integral_constant<int, 0>) {
		const Tracked & t = std::get<1>(qe.arguments);
		out.key = qe.event; out.serial = t.serial(); out.value = t.value; intact = t.intact() && std::get<0>(qe.arguments) == qe.event;
	}
	static void readQE(const QE & qe, MEvent & out, bool & intact, std::integral_constant<int, 1>) {
		out.key = qe.event;
		intact = parseString(std::get<0>(qe.arguments), out.serial, out.value) && out.value == std::get<1>(qe.arguments);
	}
	static void readQE(const QE & qe, MEvent & out, bool & intact, std::integral_constant<int, 2>) {
		const std::unique_ptr<Tracked> & p = std::get<1>(qe.arguments);
		out.key = qe.event; out.serial = p ? p->serial() : -1; out.value = p ? p->value : -1; intact = p && p->intact();
	}
	static void readQE(const QE & qe, MEvent & out, bool & intact, std::integral_constant<int, 3>) {
		const Tracked & t = std::get<0>(qe.arguments);
		out.key = qe.event; out.serial = t.serial(); out.value = t.value; intact = t.intact();
	}

	bool doPeek(int slot, MEvent & out, bool & intact, std::true_type) {
		QE qe;
		if(! Q(slot).peekEvent(&qe)) return false;
		readQE(qe, out, intact, std::integral_constant<int, P>());
		return true;
	}
	bool doPeek(int, MEvent &, bool &, std::false_type) { return false; }
	bool peek(int slot, MEvent & out, bool & intact) override { return doPeek(slot, out, intact, std::integral_constant<bool, P != 2>()); }
	bool take(int slot, MEvent & out, bool & intact, bool dispatchIt) override {
		QE qe;
		if(! Q(slot).takeEvent(&qe)) return false;
		readQE(qe, out, intact, std::integral_constant<int, P>());
		if(dispatchIt) Q(slot).dispatch(qe);
		return true;
	}
	void clear(int slot) override { Q(slot).clearEvents(); }
	bool emptyQ(int slot) override { return Q(slot).emptyQueue(); }
	// SingleThreading's condition variable does not accept the queue's own lock type: wait/waitFor do not compile there
	bool doWaitFor0(int slot, std::true_type) { return Q(slot).waitFor(std::chrono::milliseconds(0)); }
	bool doWaitFor0(int, std::false_type) { return false; }
	void doWait(int slot, std::true_type) { Q(slot).wait(); }
	void doWait(int, std::false_type) {}
	bool waitFor0(int slot) override { return doWaitFor0(slot, std::integral_constant<bool, Wait>()); }
	void waitBlocking(int slot) override { doWait(slot, std::integral_constant<bool, Wait>()); }
	void dqnPush(int slot) override {
		slots[slot].dqn.reserve(8); // no reallocation (and no injected allocation failure) between creating and storing the object
		std::unique_ptr<DQN> p(new DQN(&Q(slot)));
		slots[slot].dqn.push_back(std::move(p));
	}
	void dqnPop(int slot) override { if(! slots[slot].dqn.empty()) slots[slot].dqn.pop_back(); }

	void disp(Queue & q, const MEvent & e, std::integral_constant<int, 0>) { Tracked t(e.serial, e.value); q.dispatch(e.key, t); }
	void disp(Queue & q, const MEvent & e, std::integral_constant<int, 1>) { q.dispatch(e.key, makeString(e.serial, e.value), e.value); }
	void disp(Queue & q, const MEvent & e, std::integral_constant<int, 2>) { std::unique_ptr<Tracked> p(new Tracked(e.serial, e.value)); q.dispatch(e.key, p); }
	void disp(Queue & q, const MEvent & e, std::integral_constant<int, 3>) { Tracked t(e.serial, e.value); q.dispatch(t); }
	void dispatchDirect(int slot, const MEvent & e) override { disp(Q(slot), e, std::integral_constant<int, P>()); }

	void appendL(int slot, int key, int cb) override { handles.push_back(Q(slot).appendListener(key, LCb(cb))); }
	void prependL(int slot, int key, int cb) override { handles.push_back(Q(slot).prependListener(key, LCb(cb))); }
	void insertL(int slot, int key, int cb, int h) override { handles.push_back(Q(slot).insertListener(key, LCb(cb), H(h))); }
	bool removeL(int slot, int key, int h) override { return Q(slot).removeListener(key, H(h)); }
	bool hasAny(int slot, int key) override { return Q(slot).hasAnyListener(key); }
	bool owns(int slot, int key, int h) override { return Q(slot).ownsHandle(key, H(h)); }

	int findHandle(const Handle & h) const {
		if(h.expired()) return -1;
		for(size_t i = handles.size(); i > 0; --i) {
			const Handle & k = handles[i - 1];
			if(! k.owner_before(h) && ! h.owner_before(k) && ! k.expired()) return (int)(i - 1);
		}
		return -2;
	}
	void forEach(int slot, int key, std::vector<std::pair<int, int> > & out) override {
		Q(slot).forEach(key, [&](const Handle & h, const typename Queue::Callback & c) {
			const LCb * l = c.template target<LCb>();
			out.push_back(std::make_pair(findHandle(h), l ? l->cb() : -7));
		});
	}
	void copyCtor(int src, int dst, int fill) override { fillSlot(dst, fill); slots[dst].p = new (slots[dst].buf) Queue(static_cast<const Queue &>(Q(src))); }
	void copyAssign(int dst, int src) override { Q(dst) = static_cast<const Queue &>(Q(src)); }
	void moveCtor(int src, int dst, int fill) override { fillSlot(dst, fill); slots[dst].p = new (slots[dst].buf) Queue(std::move(Q(src))); }
	void moveAssign(int dst, int src) override { Q(dst) = std::move(Q(src)); }
	void swapQ(int a, int b) override { Q(a).swap(Q(b)); }
	int harvest(int slot, int key, int expect) override {
		std::vector<Handle> got;
		Q(slot).forEach(key, [&](const Handle & h, const typename Queue::Callback &) { got.push_back(h); });
		for(int i = 0; i < expect; ++i) handles.push_back(i < (int)got.size() ? got[i] : Handle());
		return (int)got.size();
	}
	size_t handleCount() const override { return handles.size(); }
};

struct PDefault {};
struct PSingle { using Threading = eventpp::SingleThreading; };
struct PChecked { using Threading = CheckedThreading; };
struct PGetEvent : GetEventFromTracked {};
struct PGetEventChecked : GetEventFromTracked { using Threading = CheckedThreading; };
template <typename Base, typename Cmp>
struct POrdered : Base
{
	template <typename Item> using QueueList = eventpp::OrderedQueueList<Item, Cmp>;
};

const int kConfigs = 8;
IQ * makeImpl(int cfg)
{
	switch(cfg) {
	case 0: return new QImpl<0, PDefault, 0, true>();
	case 1: return new QImpl<1, PSingle, 0, false>();
	case 2: return new QImpl<2, PChecked, 0, true>();
	case 3: return new QImpl<3, PGetEvent, 0, true>();
	case 4: return new QImpl<0, POrdered<PChecked, eventpp::OrderedQueueListCompare>, 1, true>();
	case 5: return new QImpl<0, POrdered<PSingle, CmpDesc>, 2, false>();
	case 6: return new QImpl<1, POrdered<PDefault, CmpCoarse>, 3, true>();
	default: return new QImpl<3, POrdered<PGetEventChecked, CmpByValue>, 4, true>();
	}
}

// ---------------------------------------------------------------- model + interpreter

// `lib->op(...)`: library call with the fault injector un-paused for the full expression; `impl->` keeps it paused
struct LibProxy
{
	IQ * p = nullptr;
	struct Scope
	{
		IQ * p;
		explicit Scope(IQ * p_) : p(p_) { --faults().paused; }
		~Scope() { ++faults().paused; }
		IQ * operator -> () const { return p; }
	};
	Scope operator -> () const { return Scope(p); }
};

struct MQueue
{
	bool alive = false;
	std::deque<MEvent> pending;
	ListModel lists[kKeys];
	int dqn = 0;
};

enum FrameType { F_PROCESS, F_ONE, F_IF, F_UNTIL, F_DIRECT };
enum Stage { S_NEEDPRED, S_APPROVED, S_DISPATCHING };

struct ProcFrame
{
	FrameType type;
	int slot;
	std::vector<MEvent> batch;
	size_t pos = 0;
	int predCallsSeen = 0;
	Stage stage = S_APPROVED;
	InvokeFrame inv;
	std::vector<MEvent> leftover;
	int dispatched = 0;
	bool stopped = false;
	// predicate
	int predKind = 0, predParam = 0, predCalls = 0;
	bool predArgs = true;
	const std::vector<Op> * predScript = nullptr;
};

struct Interp
{
	const Program & prog;
	std::string prop;
	Verdict & v;
	std::unique_ptr<IQ> impl;
	LibProxy lib;
	FaultPlan * plan = nullptr;
	MQueue q[kSlots];
	std::vector<int> nodeCb, nodeKey;
	std::vector<const std::vector<Op> *> cbBody;
	std::vector<ProcFrame> frames;
	int nextSerial = 1;
	int fuel = kFuel;
	bool failed = false;
	std::ostringstream log;
	int ord = 0;

	// classes
	bool declinedWithEnqueue = false, slotReuse = false, takePeekBetweenPartial = false, sawPartial = false;
	bool emptyInsideListener = false, tieAcrossRounds = false, reenqueuedTie = false;
	bool copiedWithPending = false, dirty = false, transferThenUse = false, clearedNonEmpty = false, destroyedNonEmpty = false, selfAssignInsideCall = false;
	int rounds = 0; long consumed = 0; bool enqueuedInCall = false;
	int transferStage = 0;

	Interp(const Program & p, const std::string & pr, Verdict & v_) : prog(p), prop(pr), v(v_) {}

	void fail(const std::string & rule, const std::string & pr, const std::string & msg) {
		if(failed) return;
		failed = true;
		std::string s = log.str();
		if(s.size() > 700) s = "..." + s.substr(s.size() - 700);
		v.fail(rule, pr, msg + " | log: " + s);
	}
	std::string dom() const {
		if(prop == "C08") return "C05,C13,C10,C08";
		if(prop == "C11") return "C05,C11";
		if(prop == "C09") return "C09";
		return prop;
	}

	int pickLive(int c) const {
		int n = 0;
		for(int s = 0; s < kSlots; ++s) if(q[s].alive) ++n;
		if(! n) return -1;
		int k = ((c % n) + n) % n;
		for(int s = 0; s < kSlots; ++s) if(q[s].alive && k-- == 0) return s;
		return -1;
	}
	int pickDead() const { for(int s = 0; s < kSlots; ++s) if(! q[s].alive) return s; return -1; }
	bool slotBusy(int slot) const { for(const ProcFrame & f : frames) if(f.slot == slot) return true; return false; }
	int guardedFrames(int slot) const {
		int n = 0;
		for(const ProcFrame & f : frames) if(f.slot == slot && f.type != F_DIRECT) ++n;
		return n;
	}
	// where a listener node lives: (slot, key) or (-1,-1)
	bool findNode(int node, int & slot, int & key) const {
		for(int s = 0; s < kSlots; ++s) {
			if(! q[s].alive) continue;
			for(int k = 0; k < kKeys; ++k) if(q[s].lists[k].has(node)) { slot = s; key = k; return true; }
		}
		slot = key = -1;
		return false;
	}
	int resolveHandle(int a, int self) const {
		const int n = (int)nodeCb.size();
		if(a >= 0) return n ? a % n : -1;
		switch(a) {
		case -1: return self >= 0 ? self : (n ? n - 1 : -1);
		case -3: return -1;
		case -4: return n ? n - 1 : -1;
		default: return -1;
		}
	}

	// ordering of pending events (C13): stable by (comparator class, serial)
	int ordClass(const MEvent & e) const {
		switch(ord) {
		case 1: return e.key;
		case 2: return -e.key;
		case 3: return e.key / 2;
		case 4: return (e.value >> 2) % 3;
		default: return 0;
		}
	}
	void insertPending(std::deque<MEvent> & p, const MEvent & e, bool front) {
		if(ord == 0) {
			if(front) p.push_front(e); else p.push_back(e);
			return;
		}
		// stable position: after every event that does not compare greater, ties by serial (enqueue order)
		auto it = p.begin();
		while(it != p.end() && (ordClass(*it) < ordClass(e) || (ordClass(*it) == ordClass(e) && it->serial < e.serial))) ++it;
		if(it != p.end() && ordClass(*it) == ordClass(e)) tieAcrossRounds = true;
		if(it != p.begin() && ordClass(*(it - 1)) == ordClass(e)) tieAcrossRounds = true;
		p.insert(it, e);
	}

	bool expectEmpty(int slot) const { return q[slot].pending.empty() && guardedFrames(slot) == 0; }

	// ---- processing-call protocol

	void finalizeCurrent(ProcFrame & f) {
		if(f.pos >= f.batch.size()) return;
		const MEvent & e = f.batch[f.pos];
		ListModel & l = q[f.slot].lists[e.key];
		if(f.stage == S_APPROVED) { f.inv.begin(l); f.stage = S_DISPATCHING; }
		if(f.stage == S_DISPATCHING) {
			int due = f.inv.due(l);
			if(due >= 0) {
				fail("queue.dispatch.missed", dom(), "event #" + std::to_string(e.serial) + " (key " + std::to_string(e.key) + ") was dispatched without calling listener cb" + std::to_string(nodeCb[due]));
				return;
			}
			++f.dispatched;
			++consumed;
			++f.pos;
			f.stage = (f.type == F_IF || f.type == F_UNTIL) ? S_NEEDPRED : S_APPROVED;
		}
	}

	void onListener(int cb, int key, int serial, int value, bool intact) {
		if(failed) return;
		if(frames.empty()) { fail("queue.listener.spurious", dom(), "listener cb" + std::to_string(cb) + " called outside any dispatch"); return; }
		size_t fi = frames.size() - 1;
		for(int guard = 0; guard < 100000; ++guard) {
			ProcFrame & f = frames[fi];
			if(f.pos >= f.batch.size()) {
				fail("queue.dispatch.unexpected", dom(), "listener cb" + std::to_string(cb) + " called with event #" + std::to_string(serial) + " which this call did not take (duplicate or foreign dispatch)");
				return;
			}
			const MEvent & e = f.batch[f.pos];
			if(e.serial != serial) {
				if(f.stage == S_NEEDPRED) {
					fail("queue.dispatch.order", dom(), "listener called with event #" + std::to_string(serial) + " while event #" + std::to_string(e.serial) + " is next in the call's batch");
					return;
				}
				finalizeCurrent(f);
				if(failed) return;
				continue;
			}
			if(f.stage == S_NEEDPRED) {
				fail("queue.dispatch.nopred", dom(), "event #" + std::to_string(serial) + " dispatched without asking the predicate");
				return;
			}
			ListModel & l = q[f.slot].lists[e.key];
			if(f.stage == S_APPROVED) { f.inv.begin(l); f.stage = S_DISPATCHING; }
			int due = f.inv.due(l);
			if(due < 0 || nodeCb[due] != cb) {
				fail("queue.dispatch.listener", dom(), "event #" + std::to_string(serial) + ": listener cb" + std::to_string(cb) + " called, next due is " + (due < 0 ? std::string("none") : "cb" + std::to_string(nodeCb[due])));
				return;
			}
			f.inv.advance(due);
			if(! intact || value != e.value || (key >= 0 && key != e.key)) {
				fail("queue.dispatch.args", dom(), "event #" + std::to_string(serial) + ": listener received key " + std::to_string(key) + " value " + std::to_string(value) + " intact=" + std::to_string(intact) + ", enqueued key " + std::to_string(e.key) + " value " + std::to_string(e.value));
				return;
			}
			log << " >cb" << cb << "#" << serial;
			if(--fuel > 0) {
				const std::vector<Op> * body = cbBody[cb];
				if(body && ! body->empty()) exec(*body, (int)frames.size(), due);
			}
			log << " <";
			return;
		}
	}

	bool predVerdict(ProcFrame & f, const MEvent & e) {
		int k = f.predArgs ? f.predKind % 6 : (f.predKind % 3 == 2 ? 4 : f.predKind % 3);
		switch(k) {
		case 0: return true;
		case 1: return false;
		case 2: return (e.serial & 1) == (f.predParam & 1);
		case 3: return (e.value >> 2) < f.predParam;
		case 4: return f.predCalls == (f.predParam % 5) + 1;
		default: return (e.value & 3) == (f.predParam & 3);
		}
	}

	bool onPredicate(int serial, int value, bool intact, bool hasArgs) {
		if(failed) return false;
		if(frames.empty() || (frames.back().type != F_IF && frames.back().type != F_UNTIL)) {
			fail("queue.pred.spurious", dom(), "predicate called outside processIf/processUntil");
			return false;
		}
		size_t fi = frames.size() - 1;
		{
			ProcFrame & f = frames[fi];
			if(f.stage != S_NEEDPRED) finalizeCurrent(f);
			if(failed) return false;
			if(++f.predCallsSeen != g_predOwnCalls) {
				fail("queue.pred.state", dom(), "the predicate object called for event number " + std::to_string(f.predCallsSeen) + " of this call counts " + std::to_string(g_predOwnCalls) + " call(s) of its own: it is not the object that was called for the earlier events (state kept inside a predicate is lost)");
				return false;
			}
			if(f.pos >= f.batch.size() || f.stopped) {
				fail("queue.pred.extra", dom(), "predicate called after the call's batch was exhausted or processUntil had stopped");
				return false;
			}
		}
		ProcFrame & f = frames[fi];
		const MEvent e = f.batch[f.pos];
		if(hasArgs && (serial != e.serial || value != e.value || ! intact)) {
			fail("queue.pred.args", dom(), "predicate received event #" + std::to_string(serial) + " value " + std::to_string(value) + " intact=" + std::to_string(intact) + ", expected #" + std::to_string(e.serial) + " value " + std::to_string(e.value));
			return false;
		}
		++f.predCalls;
		const bool verdict = predVerdict(f, e);
		log << " ?#" << e.serial << "=" << verdict;
		const std::vector<Op> * script = (f.predScript && f.predCalls == 1 + (f.predParam % 3)) ? f.predScript : nullptr;
		if(f.type == F_IF) {
			if(verdict) f.stage = S_APPROVED;
			else { f.leftover.push_back(e); ++f.pos; sawPartial = true; }
		}
		else {
			if(verdict) {
				f.stopped = true;
				for(size_t i = f.pos; i < f.batch.size(); ++i) f.leftover.push_back(f.batch[i]);
				f.pos = f.batch.size();
				sawPartial = true;
			}
			else f.stage = S_APPROVED;
		}
		if(script && --fuel > 0) exec(*script, (int)frames.size(), -1);
		return verdict;
	}

	// run a processing call of the given type on the real queue, then close the model frame
	void processingCall(int slot, FrameType type, const Op & op) {
		MQueue & m = q[slot];
		ProcFrame f;
		f.type = type;
		f.slot = slot;
		if(type == F_ONE) {
			if(! m.pending.empty()) { f.batch.push_back(m.pending.front()); m.pending.pop_front(); }
		}
		else {
			f.batch.assign(m.pending.begin(), m.pending.end());
			m.pending.clear();
		}
		f.stage = (type == F_IF || type == F_UNTIL) ? S_NEEDPRED : S_APPROVED;
		f.predKind = op.a; f.predParam = op.b; f.predArgs = (op.c & 4) == 0;
		predForm = (op.c & 4) ? 1 : ((op.c & 8) ? 2 : 0);
		f.predScript = op.body.empty() ? nullptr : &op.body;
		const bool guarded = ! f.batch.empty();
		if(! guarded) {
			// nothing pending: the call returns false without touching anything
			bool r = callImpl(slot, type, f.predArgs);
			if(r) fail("queue.result", dom(), std::string(kindName(op.kind)) + " returned true on an empty queue");
			return;
		}
		frames.push_back(f);
		const size_t before = q[slot].pending.size();
		log << "{";
		bool r = callImpl(slot, type, frames.back().predArgs);
		log << "}=" << r;
		if(failed) { frames.pop_back(); return; }
		size_t fi = frames.size() - 1;
		while(! failed) {
			ProcFrame & fr = frames[fi];
			if(fr.pos >= fr.batch.size()) break;
			if(fr.stage == S_NEEDPRED) {
				fail("queue.pred.missed", dom(), "call returned without asking the predicate about event #" + std::to_string(fr.batch[fr.pos].serial));
				break;
			}
			finalizeCurrent(fr);
		}
		ProcFrame done = frames.back();
		frames.pop_back();
		if(failed) return;
		// declined / unreached events go back in front of what was enqueued meanwhile, in their original order
		if(! done.leftover.empty()) {
			if(q[slot].pending.size() > before || enqueuedInCall) declinedWithEnqueue = true;
			if(ord == 0) {
				for(size_t i = done.leftover.size(); i > 0; --i) q[slot].pending.push_front(done.leftover[i - 1]);
			}
			else {
				for(const MEvent & e : done.leftover) { insertPending(q[slot].pending, e, true); reenqueuedTie = reenqueuedTie || tieAcrossRounds; }
			}
		}
		bool expect = done.dispatched > 0;
		if(r != expect) {
			fail("queue.result", dom(), std::string(kindName(op.kind)) + " returned " + std::to_string(r) + " but dispatched " + std::to_string(done.dispatched) + " event(s)");
		}
		if(frames.empty()) enqueuedInCall = false;
		++rounds;
	}
	int predForm = 0;
	bool callImpl(int slot, FrameType type, bool) {
		const int form = predForm;
		switch(type) {
		case F_PROCESS: return lib->process(slot);
		case F_ONE: return lib->processOne(slot);
		case F_IF: return lib->processIf(slot, form);
		default: return lib->processUntil(slot, form);
		}
	}

	void directDispatch(int slot, const MEvent & e, bool viaQueuedEvent) {
		ProcFrame f;
		f.type = F_DIRECT;
		f.slot = slot;
		f.batch.push_back(e);
		frames.push_back(f);
		(void)viaQueuedEvent;
		lib->dispatchDirect(slot, e);
		closeDirect();
	}
	void closeDirect() {
		if(failed) { frames.pop_back(); return; }
		size_t fi = frames.size() - 1;
		if(frames[fi].pos < frames[fi].batch.size()) finalizeCurrent(frames[fi]);
		--consumed; // a direct dispatch consumes no queued event
		frames.pop_back();
	}

	// ---- ops

	void exec(const std::vector<Op> & ops, int depth, int self) {
		int index = 0;
		for(const Op & op : ops) {
			if(failed) return;
			if(depth == 0 && plan) execWithFaults(op, index);
			else execOp(op, depth, self);
			if(depth == 0 && ! failed) quiescent();
			++index;
		}
	}

	static bool isProcessing(int kind) { return kind == Q_PROCESS || kind == Q_PROCESSONE || kind == Q_PROCESSIF || kind == Q_PROCESSUNTIL || kind == Q_TAKE || kind == Q_DISPATCH; }

	// C09 (see DESIGN): strong guarantee for enqueue / peekEvent / listener management / copies; a processing call that throws
	// discards at most the events it had taken, never dispatches them again, and leaves emptiness reporting correct
	void execWithFaults(const Op & op, int index) {
		struct Snap { MQueue q[kSlots]; std::vector<int> nodeCb, nodeKey; size_t bodies; int nextSerial; } snap;
		for(int i = 0; i < kSlots; ++i) snap.q[i] = q[i];
		snap.nodeCb = nodeCb; snap.nodeKey = nodeKey; snap.bodies = cbBody.size(); snap.nextSerial = nextSerial;
		const size_t depth0 = frames.size();
		bool nonEmpty = false;
		for(int i = 0; i < kSlots; ++i) if(q[i].alive && ! q[i].pending.empty()) nonEmpty = true;
		int caught = 0;
		{
			FaultArm arm(plan, index);
			try { execOp(op, 0, -1); }
			catch(const Injected &) { caught = 1; }
			catch(const std::bad_alloc &) { caught = 2; }
			catch(const DeadlockDetected &) { throw; }
			catch(...) { fail("fault.foreign", "C09", "an exception of a different type than the injected one reached the caller"); }
		}
		if(! caught) return;
		if(faults().fired == 0) { fail("fault.spurious", "C09", "an exception reached the caller although no fault was injected"); return; }
		++plan->fired;
		plan->firedKind = faults().lastKind;
		auto it = plan->at.find(index);
		if(it != plan->at.end() && it->second > 1 && nonEmpty) plan->firedAtKGreater1OnNonEmpty = true;
		log << "[fault " << (caught == 1 ? "Injected" : "bad_alloc") << "]";
		const int slot = pickLive(op.c & 3);
		if(op.kind == Q_COPYASSIGN && slot >= 0) {
			// a failed copy of a container leaves its source untouched and its destination VALID (not necessarily unchanged):
			// the destination may only report listeners it had or copies of the source's, and must be destructible without a leak
			frames.resize(depth0);
			const int src = pickLive(op.b);
			for(int i = 0; i < kSlots; ++i) q[i] = snap.q[i];
			nodeCb = snap.nodeCb; nodeKey = snap.nodeKey; cbBody.resize(snap.bodies); nextSerial = snap.nextSerial;
			for(int k = 0; k < kKeys && ! failed; ++k) {
				std::vector<std::pair<int, int> > got;
				impl->forEach(slot, k, got);
				for(const auto & g : got) {
					bool known = false;
					for(int n : q[slot].lists[k].nodes) if(nodeCb[n] == g.second) known = true;
					if(src >= 0) for(int n : q[src].lists[k].nodes) if(nodeCb[n] == g.second) known = true;
					if(! known) { fail("fault.copyassign.invented", "C09", "after a failed copy assignment the destination reports a listener that neither it nor the source had"); break; }
				}
			}
			if(! failed) {
				q[slot] = MQueue();
				impl->destroyQueue(slot);
				bool any = false;
				for(int i = 0; i < kSlots; ++i) if(q[i].alive) any = true;
				if(! any) { q[slot].alive = true; impl->newQueue(slot, 0); }
			}
			return;
		}
		if(! isProcessing(op.kind)) {
			frames.resize(depth0);
			for(int i = 0; i < kSlots; ++i) q[i] = snap.q[i];
			nodeCb = snap.nodeCb; nodeKey = snap.nodeKey; cbBody.resize(snap.bodies); nextSerial = snap.nextSerial;
			if(impl->handleCount() != nodeCb.size()) fail("fault.handles", "C09", "a failed listener addition still produced a handle");
			return;
		}
		// events the faulted call had taken and not finished dispatching: they may be gone, and must never be dispatched again
		std::vector<MEvent> mayBeGone;
		for(size_t fi = depth0; fi < frames.size(); ++fi) {
			const ProcFrame & f = frames[fi];
			if(f.type == F_DIRECT) continue;
			for(const MEvent & e : f.leftover) mayBeGone.push_back(e);
			for(size_t i = f.pos; i < f.batch.size(); ++i) mayBeGone.push_back(f.batch[i]);
		}
		frames.resize(depth0);
		if(slot < 0 || failed) return;
		// drain probe: what is still queued = a subsequence of mayBeGone (in order) followed by exactly the model's pending events
		std::vector<MEvent> got;
		const bool emptyBefore = impl->emptyQ(slot);
		// (bounded by what can possibly be there: listener scripts that enqueue two events per processed one grow the queue
		// past any fixed number; a fixed bound of 200 once made the probe stop early and report the rest as lost)
		const size_t probeBound = q[slot].pending.size() + mayBeGone.size() + 16;
		for(size_t guard = 0; guard < probeBound; ++guard) {
			MEvent e; bool intact = false;
			if(! impl->take(slot, e, intact, false)) break;
			if(! intact) { fail("fault.payload", "C09", "an event that survived the exception has a damaged payload"); return; }
			got.push_back(e);
		}
		if(emptyBefore != got.empty()) { fail("fault.empty", "C09,C11", "after the exception emptyQueue() returned " + std::to_string(emptyBefore) + " but " + std::to_string(got.size()) + " event(s) were still queued"); return; }
		const std::deque<MEvent> & pend = q[slot].pending;
		if(got.size() < pend.size()) { fail("fault.lost", "C09", "the exception lost " + std::to_string(pend.size() - got.size()) + " event(s) that the failed call had not taken"); return; }
		const size_t extra = got.size() - pend.size();
		for(size_t i = 0; i < pend.size(); ++i) {
			if(got[extra + i].serial != pend[i].serial) { fail("fault.order", "C09", "events not taken by the failed call are no longer in order (or one was lost): found #" + std::to_string(got[extra + i].serial) + " where #" + std::to_string(pend[i].serial) + " was expected"); return; }
		}
		size_t m = 0;
		for(size_t i = 0; i < extra; ++i) {
			while(m < mayBeGone.size() && mayBeGone[m].serial != got[i].serial) ++m;
			if(m >= mayBeGone.size()) { fail("fault.resurrected", "C09", "event #" + std::to_string(got[i].serial) + " is queued after the exception although it was neither pending nor held by the failed call (dispatched twice?)"); return; }
			++m;
		}
		q[slot].pending.clear();
		if(! impl->emptyQ(slot)) fail("fault.empty", "C09,C11", "queue not empty after every remaining event was taken");
	}

	bool insideIfUntil() const {
		for(const ProcFrame & f : frames) if(f.type == F_IF || f.type == F_UNTIL) return true;
		return false;
	}

	void execOp(const Op & op, int depth, int self) {
		const int slot = pickLive(op.c & 3);
		if(slot < 0) return;
		MQueue & m = q[slot];
		log << ' ' << kindName(op.kind);
		switch(op.kind) {
		case Q_ENQ: {
			MEvent e;
			e.serial = nextSerial++;
			e.key = ((op.a % kKeys) + kKeys) % kKeys;
			e.value = ((op.b < 0 ? -op.b : op.b) % 1000) * 4 + e.key;
			log << "(#" << e.serial << " k" << e.key << ")";
			insertPending(m.pending, e, false);
			if(! frames.empty()) enqueuedInCall = true;
			if(consumed > 0) slotReuse = true;
			lib->enqueue(slot, e, (op.c >> 2) & 1);
			break;
		}
		case Q_ENQ_BURST: {
			const int n = 18 + (((op.a % 23) + 23) % 23);
			for(int i = 0; i < n && ! failed; ++i) {
				Op one;
				one.kind = Q_ENQ;
				one.a = (op.b + i * i + (i >> 2)) & 1 ? 1 + ((op.a >> 3) & 1) : 0; // two or three distinct keys
				one.b = (op.b * 31 + i * 17) % 1000;
				one.c = op.c;
				execOp(one, depth, self);
			}
			break;
		}
		case Q_PROCESS: case Q_PROCESSONE: case Q_PROCESSIF: case Q_PROCESSUNTIL: {
			// nested consuming calls are generated only inside process/processOne (DESIGN C05)
			if((int)frames.size() >= kMaxDepth || fuel <= 0) { log << "(skip)"; break; }
			if(! frames.empty() && insideIfUntil()) { log << "(skip)"; break; }
			FrameType t = op.kind == Q_PROCESS ? F_PROCESS : op.kind == Q_PROCESSONE ? F_ONE : op.kind == Q_PROCESSIF ? F_IF : F_UNTIL;
			processingCall(slot, t, op);
			break;
		}
		case Q_PEEK: {
			if(! impl->supportsPeek()) break;
			if(! frames.empty() && insideIfUntil()) { log << "(skip)"; break; }
			MEvent got; bool intact = false;
			bool r = lib->peek(slot, got, intact);
			bool expect = ! m.pending.empty();
			if(r != expect) { fail("queue.peek.result", dom(), "peekEvent returned " + std::to_string(r) + ", model has " + std::to_string(m.pending.size()) + " pending"); break; }
			if(r) {
				const MEvent & e = m.pending.front();
				if(got.serial != e.serial || got.value != e.value || got.key != e.key || ! intact) {
					fail("queue.peek.content", dom(), "peekEvent returned event #" + std::to_string(got.serial) + " key " + std::to_string(got.key) + " value " + std::to_string(got.value) + " intact=" + std::to_string(intact) + ", the front is #" + std::to_string(e.serial) + " key " + std::to_string(e.key) + " value " + std::to_string(e.value));
				}
				if(sawPartial) takePeekBetweenPartial = true;
			}
			break;
		}
		case Q_TAKE: {
			if(! frames.empty() && insideIfUntil()) { log << "(skip)"; break; }
			if((int)frames.size() >= kMaxDepth) break;
			bool expect = ! m.pending.empty();
			MEvent e;
			if(expect) { e = m.pending.front(); m.pending.pop_front(); }
			const bool dispatchIt = (op.a & 1) != 0 && fuel > 0;
			MEvent got; bool intact = false;
			if(expect && dispatchIt) {
				ProcFrame f; f.type = F_DIRECT; f.slot = slot; f.batch.push_back(e);
				frames.push_back(f);
			}
			bool r = lib->take(slot, got, intact, dispatchIt);
			if(expect && dispatchIt) { ++consumed; closeDirect(); }
			else if(expect) ++consumed;
			if(failed) break;
			log << "=" << r;
			if(r != expect) { fail("queue.take.result", dom(), "takeEvent returned " + std::to_string(r) + ", model has pending=" + std::to_string(expect)); break; }
			if(r && (got.serial != e.serial || got.value != e.value || got.key != e.key || ! intact)) {
				fail("queue.take.content", dom(), "takeEvent returned event #" + std::to_string(got.serial) + " key " + std::to_string(got.key) + " value " + std::to_string(got.value) + " intact=" + std::to_string(intact) + ", the front was #" + std::to_string(e.serial) + " key " + std::to_string(e.key) + " value " + std::to_string(e.value));
			}
			if(r && sawPartial) takePeekBetweenPartial = true;
			break;
		}
		case Q_CLEAR: {
			if(! frames.empty() && insideIfUntil()) { log << "(skip)"; break; }
			std::vector<MEvent> gone(m.pending.begin(), m.pending.end());
			m.pending.clear();
			if(! gone.empty()) clearedNonEmpty = true;
			lib->clear(slot);
			consumed += (long)gone.size();
			// C08: the discarded events' arguments are released before clearEvents returns
			for(const MEvent & e : gone) {
				int live = ledger().live(kPayloadBase + e.serial);
				if(live != 0) {
					fail("ledger.cleared.alive", "C08", "clearEvents returned but " + std::to_string(live) + " instance(s) of the payload of discarded event #" + std::to_string(e.serial) + " are still alive");
					break;
				}
			}
			break;
		}
		case Q_EMPTYQ: {
			bool r = impl->emptyQ(slot);
			bool expect = expectEmpty(slot);
			if(guardedFrames(slot) > 0) emptyInsideListener = true;
			log << "=" << r;
			if(r != expect) {
				fail("queue.empty", guardedFrames(slot) > 0 ? "C11,C05,C10" : dom() + ",C11", "emptyQueue() returned " + std::to_string(r) + " with " + std::to_string(m.pending.size()) + " pending event(s) and " + std::to_string(guardedFrames(slot)) + " processing call(s) in progress");
			}
			break;
		}
		case Q_WAITFOR0: {
			if(! impl->supportsWait()) break;
			bool r = lib->waitFor0(slot);
			bool expect = ! expectEmpty(slot) && m.dqn == 0;
			log << "=" << r;
			if(r != expect) {
				fail("queue.waitfor0", "C05,C07,C10,C11,C13", "waitFor(0) returned " + std::to_string(r) + " with " + std::to_string(m.pending.size()) + " pending, " + std::to_string(guardedFrames(slot)) + " call(s) in progress, " + std::to_string(m.dqn) + " DisableQueueNotify alive");
			}
			break;
		}
		case Q_WAIT: {
			// only when it cannot block
			if(! impl->supportsWait() || expectEmpty(slot) || m.dqn != 0) break;
			lib->waitBlocking(slot);
			break;
		}
		case Q_DQNPUSH: if(m.dqn < 3) { ++m.dqn; lib->dqnPush(slot); } break;
		case Q_DQNPOP: if(m.dqn > 0) { --m.dqn; lib->dqnPop(slot); } break;
		case Q_DISPATCH: {
			if((int)frames.size() >= kMaxDepth || fuel <= 0) break;
			MEvent e;
			e.serial = nextSerial++;
			e.key = ((op.a % kKeys) + kKeys) % kKeys;
			e.value = ((op.b < 0 ? -op.b : op.b) % 1000) * 4 + e.key;
			directDispatch(slot, e, false);
			break;
		}
		case Q_APPENDL: case Q_PREPENDL: {
			int key = ((op.a % kKeys) + kKeys) % kKeys;
			cbBody.push_back(&op.body);
			int cb = (int)cbBody.size() - 1;
			int node = (int)nodeCb.size();
			nodeCb.push_back(cb); nodeKey.push_back(key);
			if(op.kind == Q_APPENDL) { m.lists[key].append(node); lib->appendL(slot, key, cb); }
			else { m.lists[key].prepend(node); lib->prependL(slot, key, cb); }
			log << "(k" << key << ":n" << node << ")";
			break;
		}
		case Q_INSERTL: {
			int key = ((op.a % kKeys) + kKeys) % kKeys;
			int h = resolveHandle(op.b, self);
			int hs, hk;
			if(h >= 0 && findNode(h, hs, hk) && (hs != slot || hk != key)) { log << "(skip-foreign)"; break; }
			cbBody.push_back(&op.body);
			int cb = (int)cbBody.size() - 1;
			int node = (int)nodeCb.size();
			nodeCb.push_back(cb); nodeKey.push_back(key);
			m.lists[key].insertBefore(node, h);
			lib->insertL(slot, key, cb, h);
			break;
		}
		case Q_REMOVEL: {
			int h = resolveHandle(op.a, self);
			if(h < 0) break;
			int key = nodeKey[h];
			int hs, hk;
			if(findNode(h, hs, hk) && hs != slot) { log << "(skip-foreign)"; break; }
			bool expect = m.lists[key].remove(h);
			bool r = lib->removeL(slot, key, h);
			log << "(h" << h << ")=" << r;
			if(r != expect) fail("queue.removeListener", dom(), "removeListener returned " + std::to_string(r) + ", model says " + std::to_string(expect));
			break;
		}
		case Q_NEWQ: {
			int d = pickDead();
			if(d < 0) break;
			q[d] = MQueue();
			q[d].alive = true;
			lib->newQueue(d, op.b);
			if(op.b & 3) dirty = true;
			break;
		}
		case Q_COPYCTOR: {
			int d = pickDead();
			if(d < 0) break;
			q[d] = MQueue();
			q[d].alive = true;
			lib->copyCtor(slot, d, op.b);
			if(op.b & 3) dirty = true;
			if(! m.pending.empty()) copiedWithPending = true;
			adoptCopy(d, slot);
			transferStage = 1;
			break;
		}
		case Q_COPYASSIGN: {
			int src = pickLive(op.b);
			if(src < 0) break;
			// assigning a queue to itself takes over nothing and is allowed at any moment, also from a listener the queue is
			// running; any other assignment: see DESIGN C10 (idle destination without pending events)
			if(src != slot && (slotBusy(slot) || ! m.pending.empty() || m.dqn)) break;
			if(src == slot && slotBusy(slot)) selfAssignInsideCall = true;
			lib->copyAssign(slot, src);
			if(src != slot) {
				for(int k = 0; k < kKeys; ++k) m.lists[k].nodes.clear();
				adoptCopy(slot, src);
				if(! q[src].pending.empty()) copiedWithPending = true;
			}
			transferStage = 1;
			break;
		}
		case Q_MOVECTOR: {
			int d = pickDead();
			if(d < 0 || slotBusy(slot)) break;
			q[d] = MQueue();
			q[d].alive = true;
			for(int k = 0; k < kKeys; ++k) { q[d].lists[k] = m.lists[k]; }
			lib->moveCtor(slot, d, op.b);
			if(op.b & 3) dirty = true;
			adoptMovedFrom(slot, d);
			transferStage = 1;
			break;
		}
		case Q_MOVEASSIGN: {
			int src = pickLive(op.b);
			if(src < 0 || src == slot || slotBusy(slot) || slotBusy(src) || ! m.pending.empty() || m.dqn) break;
			for(int k = 0; k < kKeys; ++k) m.lists[k] = q[src].lists[k];
			lib->moveAssign(slot, src);
			adoptMovedFrom(src, slot);
			transferStage = 1;
			break;
		}
		case Q_SWAP: {
			int other = pickLive(op.b);
			if(other < 0 || slotBusy(slot) || slotBusy(other)) break;
			for(int k = 0; k < kKeys; ++k) std::swap(m.lists[k], q[other].lists[k]);
			lib->swapQ(slot, other);
			transferStage = 1;
			break;
		}
		case Q_DESTROY: {
			int live = 0;
			for(int s = 0; s < kSlots; ++s) if(q[s].alive) ++live;
			if(live <= 1 || slotBusy(slot)) break;
			std::vector<MEvent> gone(m.pending.begin(), m.pending.end());
			if(! gone.empty()) destroyedNonEmpty = true;
			q[slot] = MQueue();
			lib->destroyQueue(slot);
			for(const MEvent & e : gone) {
				int alive = ledger().live(kPayloadBase + e.serial);
				if(alive != 0) { fail("ledger.destroyed.alive", "C08", "queue destroyed but payload of pending event #" + std::to_string(e.serial) + " is still alive"); break; }
			}
			break;
		}
		default: break;
		}
		if(transferStage == 1 && (op.kind == Q_ENQ || op.kind == Q_APPENDL || op.kind == Q_REMOVEL || op.kind == Q_PROCESS)) transferStage = 2;
		if(checkedState().unbalanced) fail("queue.mutex.unbalanced", "*", "unlock of a mutex that was not locked");
		(void)depth;
	}

	void adoptCopy(int dst, int src) {
		for(int k = 0; k < kKeys; ++k) {
			const std::vector<int> from = q[src].lists[k].nodes;
			for(int n : from) {
				int node = (int)nodeCb.size();
				nodeCb.push_back(nodeCb[n]); nodeKey.push_back(k);
				q[dst].lists[k].append(node);
			}
			int got = impl->harvest(dst, k, (int)from.size());
			if(got != (int)from.size()) fail("queue.copy.listeners", "C10", "copy holds " + std::to_string(got) + " listeners for key " + std::to_string(k) + ", source has " + std::to_string(from.size()));
		}
	}
	void adoptMovedFrom(int src, int dst) {
		for(int k = 0; k < kKeys; ++k) {
			std::vector<std::pair<int, int> > got;
			impl->forEach(src, k, got);
			ListModel l;
			for(const auto & g : got) {
				if(g.first < 0 || q[dst].lists[k].has(g.first)) {
					fail("queue.movedfrom", "C10", "moved-from queue still reports a listener it shares with the destination (or an unknown one)");
					return;
				}
				l.append(g.first);
			}
			q[src].lists[k] = l;
		}
	}

	void quiescent() {
		for(int s = 0; s < kSlots && ! failed; ++s) {
			if(! q[s].alive) continue;
			bool r = impl->emptyQ(s);
			if(r != expectEmpty(s)) {
				fail("queue.empty.state", dom() + ",C11", "emptyQueue() is " + std::to_string(r) + " on queue " + std::to_string(s) + " but the model holds " + std::to_string(q[s].pending.size()) + " pending event(s)");
			}
		}
		if(ledger().isFlagged()) fail("ledger.flag", "C08", ledger().message());
	}

	void finalDrain() {
		// every event still pending is consumed exactly once by a final process(), in order
		for(int s = 0; s < kSlots && ! failed; ++s) {
			if(! q[s].alive) continue;
			while(q[s].dqn > 0) { --q[s].dqn; impl->dqnPop(s); }
			for(int k = 0; k < kKeys && ! failed; ++k) {
				std::vector<std::pair<int, int> > got;
				impl->forEach(s, k, got);
				const auto & nodes = q[s].lists[k].nodes;
				bool same = got.size() == nodes.size();
				for(size_t i = 0; same && i < nodes.size(); ++i) same = got[i].first == nodes[i] && got[i].second == nodeCb[nodes[i]];
				if(! same) fail("queue.listeners.final", dom(), "final enumeration of key " + std::to_string(k) + " differs from the model");
				bool any = impl->hasAny(s, k);
				if(! failed && any != ! nodes.empty()) fail("queue.hasAny.final", dom(), "hasAnyListener differs from the model");
			}
			if(failed) break;
			Op op; op.kind = Q_PROCESS; op.c = 0;
			fuel = 0; // listener scripts no longer run: the drain must terminate
			int guard = 0;
			while(! failed && ! q[s].pending.empty() && guard++ < 50) {
				log << " drain";
				processingCall(s, F_PROCESS, op);
			}
			if(! failed && ! impl->emptyQ(s)) fail("queue.empty.final", dom() + ",C11", "queue not empty after the final drain");
		}
	}

	void run() {
		const int cfg = prog.params.empty() ? 0 : ((prog.params[0] % kConfigs) + kConfigs) % kConfigs;
		impl.reset(makeImpl(cfg));
		lib.p = impl.get();
		ord = impl->ordered();
		q[0].alive = true;
		impl->newQueue(0, prog.params.size() > 1 ? prog.params[1] : 0);
		try {
			FaultPause harnessCode;
			exec(prog.ops, 0, -1);
			if(! failed) finalDrain();
		}
		catch(const DeadlockDetected &) {
			frames.clear();
			fail("queue.deadlock", "*", "a mutex was locked again by its owner, or a wait would block forever in a single-threaded history");
		}
		frames.clear();
		impl.reset();
		if(! failed) {
			if(ledger().isFlagged()) fail("ledger.flag", "C08", ledger().message());
			else if(ledger().totalLive() != 0) {
				fail("ledger.leak", "C08", std::to_string(ledger().totalLive()) + " tracked object(s) alive after every queue was destroyed (first id " + std::to_string(ledger().anyLiveIn(0, 1 << 30)) + ")");
			}
		}
	}
};

void deliverListener(int cb, int key, int serial, int value, bool intact)
{
	faults().point(1); // a listener may throw on entry (C09)
	FaultPause fp, fp2;
	if(g_q) g_q->onListener(cb, key, serial, value, intact);
}
bool deliverPredicate(int serial, int value, bool intact, bool hasArgs)
{
	faults().point(5); // a predicate may throw (C09)
	FaultPause fp, fp2;
	return g_q ? g_q->onPredicate(serial, value, intact, hasArgs) : false;
}

// ---------------------------------------------------------------- grammar

Grammar makeGrammar(const std::string & prop)
{
	Grammar g;
	const bool orderedOnly = prop == "C13";
	const bool multi = prop == "C10" || prop == "C08" || prop == "C09";
	// params[0]: configuration. C05/C11: plain queues; C13: ordered; C08/C10: all
	if(orderedOnly) g.params = { ArgSpec(4, 7), ArgSpec(0, 3) };
	else if(multi) g.params = { ArgSpec(0, 7), ArgSpec(0, 3) };
	else g.params = { ArgSpec(0, 3), ArgSpec(0, 3) };
	g.maxSched = 0;
	g.maxDepth = 3;
	g.maxTotalOps = 200;
	const ArgSpec key(0, 3);
	const ArgSpec val(0, 999);
	const ArgSpec slot = multi ? ArgSpec(0, 7) : ArgSpec(0, 4, 0, 0, 0); // bits 0-1 slot, bit 2 flag
	const ArgSpec H(0, 30, -4, -1, 25);
	Level top;
	top.minOps = 1;
	top.maxOps = 80;
	top.kinds = {
		{ Q_ENQ, "enqueue", 30, key, val, slot, -1, 0 },
		{ Q_ENQ_BURST, "enqueueBurst", orderedOnly ? 3 : 0, ArgSpec(0, 45), val, slot, -1, 0 },
		{ Q_PROCESS, "process", 6, ArgSpec(0, 0), ArgSpec(0, 0), slot, -1, 0 },
		{ Q_PROCESSONE, "processOne", 6, ArgSpec(0, 0), ArgSpec(0, 0), slot, -1, 0 },
		{ Q_PROCESSIF, "processIf", 8, ArgSpec(0, 5), ArgSpec(0, 400), ArgSpec(0, 15), 2, 3 },
		{ Q_PROCESSUNTIL, "processUntil", 6, ArgSpec(0, 5), ArgSpec(0, 400), ArgSpec(0, 15), 2, 3 },
		{ Q_PEEK, "peekEvent", 4, ArgSpec(0, 0), ArgSpec(0, 0), slot, -1, 0 },
		{ Q_TAKE, "takeEvent", 5, ArgSpec(0, 1), ArgSpec(0, 0), slot, -1, 0 },
		{ Q_CLEAR, "clearEvents", 2, ArgSpec(0, 0), ArgSpec(0, 0), slot, -1, 0 },
		{ Q_EMPTYQ, "emptyQueue", 3, ArgSpec(0, 0), ArgSpec(0, 0), slot, -1, 0 },
		{ Q_APPENDL, "appendListener", 10, key, ArgSpec(0, 0), slot, 1, 5 },
		{ Q_PREPENDL, "prependListener", 3, key, ArgSpec(0, 0), slot, 1, 5 },
		{ Q_INSERTL, "insertListener", 3, key, H, slot, 1, 5 },
		{ Q_REMOVEL, "removeListener", 5, H, ArgSpec(0, 0), slot, -1, 0 },
		{ Q_WAITFOR0, "waitFor0", 3, ArgSpec(0, 0), ArgSpec(0, 0), slot, -1, 0 },
		{ Q_WAIT, "wait", 1, ArgSpec(0, 0), ArgSpec(0, 0), slot, -1, 0 },
		{ Q_DQNPUSH, "dqnPush", 1, ArgSpec(0, 0), ArgSpec(0, 0), slot, -1, 0 },
		{ Q_DQNPOP, "dqnPop", 2, ArgSpec(0, 0), ArgSpec(0, 0), slot, -1, 0 },
		{ Q_DISPATCH, "dispatch", 2, key, val, slot, -1, 0 },
	};
	if(multi) {
		const int w = prop == "C10" ? 5 : 2;
		top.kinds.push_back({ Q_NEWQ, "newQueue", w, ArgSpec(0, 0), ArgSpec(0, 3), ArgSpec(0, 0), -1, 0 });
		top.kinds.push_back({ Q_COPYCTOR, "copyCtor", w + 2, ArgSpec(0, 0), ArgSpec(0, 3), slot, -1, 0 });
		top.kinds.push_back({ Q_COPYASSIGN, "copyAssign", w, ArgSpec(0, 0), ArgSpec(0, 3), slot, -1, 0 });
		top.kinds.push_back({ Q_MOVECTOR, "moveCtor", w + 2, ArgSpec(0, 0), ArgSpec(0, 3), slot, -1, 0 });
		top.kinds.push_back({ Q_MOVEASSIGN, "moveAssign", w, ArgSpec(0, 0), ArgSpec(0, 3), slot, -1, 0 });
		top.kinds.push_back({ Q_SWAP, "swap", w, ArgSpec(0, 0), ArgSpec(0, 3), slot, -1, 0 });
		top.kinds.push_back({ Q_DESTROY, "destroy", w, ArgSpec(0, 0), ArgSpec(0, 0), slot, -1, 0 });
	}
	g.levels.push_back(top);
	// level 1: listener scripts
	Level body;
	body.kinds = {
		{ Q_ENQ, "enqueue", 10, key, val, slot, -1, 0 },
		{ Q_EMPTYQ, "emptyQueue", 6, ArgSpec(0, 0), ArgSpec(0, 0), slot, -1, 0 },
		{ Q_WAITFOR0, "waitFor0", 2, ArgSpec(0, 0), ArgSpec(0, 0), slot, -1, 0 },
		{ Q_APPENDL, "appendListener", 3, key, ArgSpec(0, 0), slot, 1, 2 },
		{ Q_REMOVEL, "removeListener", 5, ArgSpec(0, 30, -4, -1, 50), ArgSpec(0, 0), slot, -1, 0 },
		{ Q_INSERTL, "insertListener", 2, key, ArgSpec(0, 30, -4, -1, 50), slot, 1, 2 },
		{ Q_PROCESS, "process", 2, ArgSpec(0, 0), ArgSpec(0, 0), slot, -1, 0 },
		{ Q_PROCESSONE, "processOne", 3, ArgSpec(0, 0), ArgSpec(0, 0), slot, -1, 0 },
		{ Q_PROCESSIF, "processIf", 1, ArgSpec(0, 5), ArgSpec(0, 400), slot, -1, 0 },
		{ Q_TAKE, "takeEvent", 2, ArgSpec(0, 1), ArgSpec(0, 0), slot, -1, 0 },
		{ Q_PEEK, "peekEvent", 1, ArgSpec(0, 0), ArgSpec(0, 0), slot, -1, 0 },
		{ Q_CLEAR, "clearEvents", 1, ArgSpec(0, 0), ArgSpec(0, 0), slot, -1, 0 },
		{ Q_DISPATCH, "dispatch", 1, key, val, slot, -1, 0 },
		{ Q_COPYASSIGN, "copyAssign", 1, ArgSpec(0, 0), ArgSpec(0, 3), slot, -1, 0 }, // with one queue alive: self assignment
	};
	g.levels.push_back(body);
	// level 2: predicate scripts
	Level pred;
	pred.kinds = {
		{ Q_ENQ, "enqueue", 6, key, val, slot, -1, 0 },
		{ Q_EMPTYQ, "emptyQueue", 4, ArgSpec(0, 0), ArgSpec(0, 0), slot, -1, 0 },
		{ Q_APPENDL, "appendListener", 2, key, ArgSpec(0, 0), slot, -1, 0 },
		{ Q_REMOVEL, "removeListener", 2, ArgSpec(0, 30), ArgSpec(0, 0), slot, -1, 0 },
	};
	g.levels.push_back(pred);
	return g;
}

const Grammar & grammar(const std::string & prop)
{
	static std::map<std::string, Grammar> cache;
	auto it = cache.find(prop);
	if(it == cache.end()) it = cache.insert(std::make_pair(prop, makeGrammar(prop))).first;
	return it->second;
}

long g_caseCounter = 0;

Verdict runOnce(const Program & p, const std::string & prop, FaultPlan * plan)
{
	Verdict v;
	v.trace.reserve(4096);
	v.classes.reserve(32);
	ledger().reset();
	faults().reset();
	checkedState().reset();
	LeakScope scope;
	{
		Interp in(p, prop, v);
		in.plan = plan;
		g_q = &in;
		in.run();
		g_q = nullptr;
		auto cls = [&](bool b, const char * n) { if(b) v.classes.push_back(n); };
		cls(in.declinedWithEnqueue, "declined_while_listener_enqueued");
		cls(in.slotReuse, "slot_reuse");
		cls(in.takePeekBetweenPartial, "take_or_peek_between_partial");
		cls(in.emptyInsideListener, "emptyQueue_inside_processing");
		cls(in.tieAcrossRounds, "ordered_tie");
		cls(in.copiedWithPending, "copied_with_pending_events");
		cls(in.selfAssignInsideCall, "queue_assigned_to_itself_inside_a_processing_call");
		cls(in.dirty, "dirty_storage");
		cls(in.transferStage == 2, "transfer_then_use");
		cls(in.clearedNonEmpty, "cleared_nonempty");
		cls(in.destroyedNonEmpty, "destroyed_nonempty");
		cls(in.ord != 0, "ordered_queue");
		if(prop == "C05") v.nontrivial = in.declinedWithEnqueue && in.slotReuse && in.takePeekBetweenPartial;
		else if(prop == "C11") v.nontrivial = in.emptyInsideListener;
		else if(prop == "C13") v.nontrivial = in.tieAcrossRounds && in.slotReuse && in.consumed >= 3;
		else if(prop == "C10") v.nontrivial = in.transferStage == 2;
		else if(prop == "C08") v.nontrivial = in.slotReuse && (in.clearedNonEmpty || in.destroyedNonEmpty);
		else v.nontrivial = true;
		const std::string full = in.log.str();
		v.trace.assign(full, 0, std::min<size_t>(full.size(), 4000));
	}
	ledger().reset();
	if(v.ok && (scope.grew() || (++g_caseCounter & 1023) == 0)) {
		v.classes.push_back("lsan_confirmation_run");
		if(confirmLeak()) v.fail("lsan.leak", "C08", "LeakSanitizer: memory allocated during the case is unreachable after every queue was destroyed", "lsan.leak");
	}
	if(! v.ok && plan && ! plan->counting && v.prop == "C08") v.prop = "C08,C09";
	return v;
}

Verdict run(const Program & p, const std::string & prop)
{
#ifdef VF_FAULTS
	// the fault variant also serves C08: "destroyed exactly once, never leaked ... including exceptions"
	const bool inject = prop == "C09" || prop == "C08";
#else
	const bool inject = prop == "C09";
#endif
	if(! inject) return runOnce(p, prop, nullptr);
	return faultOrchestrate(p, [&](const Program & q2, FaultPlan & plan, Verdict & out) { out = runOnce(q2, prop, &plan); });
}

} // namespace

namespace vf {
const Harness g_harness = { "queue", &grammar, &run, &kindName, nullptr };
}
