// Per-case leak oracle: live heap bytes before / after a case as a cheap trigger, LeakSanitizer's
// recoverable check (expensive, ~0.1 s) as the confirmation. Without ASan both are no-ops.
#ifndef VERIF_LEAK_H
#define VERIF_LEAK_H

#include <cstddef>

#if defined(__has_feature)
#if __has_feature(address_sanitizer)
#define VF_ASAN 1
#endif
#endif
#if defined(__SANITIZE_ADDRESS__)
#define VF_ASAN 1
#endif

#ifdef VF_ASAN
// declared by hand: g++ does not ship <sanitizer/allocator_interface.h>
extern "C" size_t __sanitizer_get_current_allocated_bytes();
extern "C" int __lsan_do_recoverable_leak_check();
#endif

namespace vf {

inline size_t heapBytes()
{
#ifdef VF_ASAN
	return __sanitizer_get_current_allocated_bytes();
#else
	return 0;
#endif
}

// true iff LeakSanitizer finds unreachable memory (each leak is reported once)
inline bool confirmLeak()
{
#ifdef VF_ASAN
	return __lsan_do_recoverable_leak_check() != 0;
#else
	return false;
#endif
}

struct LeakScope
{
	size_t before;
	LeakScope() : before(heapBytes()) {}
	// more heap in use than when the scope began: worth asking LeakSanitizer
	bool grew() const { return heapBytes() > before; }
};

} // namespace vf

#endif
