// Harness `copy` (C10, remaining container kinds): pools of EventDispatcher, EventQueue+MixinFilter, HeterCallbackList,
// HeterEventDispatcher, HeterEventQueue objects under copy/move/assign/swap/destroy interleaved with listener and filter
// changes and dispatches; value-semantic model per object; new objects are placement-constructed over dirty storage.
#include <eventpp/eventqueue.h>
#include <eventpp/hetereventqueue.h>
#include <eventpp/mixins/mixinfilter.h>
#include <eventpp/mixins/mixinheterfilter.h>

#include "common/harness.h"
#include "common/ledger.h"
#include "common/checked.h"
#include "common/leak.h"

#include <chrono>
#include <memory>
#include <sstream>

namespace {
using namespace vf;

enum Kind { X_ADD = 1, X_REMOVE, X_FILTER, X_RMFILTER, X_DISPATCH, X_COPYCTOR, X_COPYASSIGN, X_MOVECTOR, X_MOVEASSIGN, X_SWAP, X_DESTROY, X_ENQ, X_PROCESS, X_EMPTY, X_NEW, X_MAX };
const char * kindName(int k)
{
	static const char * n[] = { "?", "addListener", "removeListener", "appendFilter", "removeFilter", "dispatch", "copyCtor", "copyAssign", "moveCtor", "moveAssign", "swap", "destroy",
		"enqueue", "process", "emptyQueue", "new" };
	return (k > 0 && k < X_MAX) ? n[k] : "?";
}
const int kSlots = 4;
const int kLists = 4; // homogeneous: key 0..3; heterogeneous: (key 0..1) x (prototype 0..1)

struct Seen { int id; long arg; };
std::vector<Seen> * g_seen = nullptr;

struct L : LedgeredT<2>
{
	explicit L(int id_) : LedgeredT<2>(kCbBase + id_) {}
	void operator() (int a) const { touch(); if(g_seen) g_seen->push_back(Seen { id - kCbBase, a }); }
	void operator() (const std::string & s) const { touch(); if(g_seen) g_seen->push_back(Seen { id - kCbBase, (long)s.size() }); }
};
struct F : LedgeredT<5>
{
	explicit F(int id_) : LedgeredT<5>(kAuxBase + id_) {}
	bool operator() (int & a) const { touch(); if(g_seen) g_seen->push_back(Seen { -(id - kAuxBase) - 1, a }); a += 1000; return true; }
};

struct ISubject
{
	virtual ~ISubject() {}
	virtual bool isQueue() const = 0;
	virtual bool hasFilters() const = 0;
	virtual bool canWait() const = 0;
	virtual void create(int slot, int fill) = 0;
	virtual void destroy(int slot) = 0;
	virtual void add(int slot, int list, int how, int id) = 0;
	virtual bool remove(int slot, int list, int nth) = 0;
	virtual void addFilter(int slot, int id) = 0;
	virtual bool removeFilter(int slot, int nth) = 0;
	virtual void dispatch(int slot, int list, int arg) = 0;
	virtual void enqueue(int slot, int list, int arg) = 0;
	virtual bool process(int slot) = 0;
	virtual bool emptyQ(int slot) = 0;
	virtual int waitFor0(int slot) = 0;
	virtual void copyCtor(int src, int dst, int fill) = 0;
	virtual void copyAssign(int dst, int src) = 0;
	virtual void moveCtor(int src, int dst, int fill) = 0;
	virtual void moveAssign(int dst, int src) = 0;
	virtual void swapObjs(int a, int b) = 0;
	// number of listeners each list of the object reports (handles re-harvested)
	virtual std::vector<int> harvest(int slot) = 0;
	virtual int harvestFilters(int slot) = 0;
};

struct PolEx { using ArgumentPassingMode = eventpp::ArgumentPassingExcludeEvent; };
struct PolExFilter { using ArgumentPassingMode = eventpp::ArgumentPassingExcludeEvent; using Mixins = eventpp::MixinList<eventpp::MixinFilter>; };
using HL = eventpp::HeterTuple<void (int), void (const std::string &)>;
// the heterogeneous dispatcher and queue run on the owner-tracking mutex: a second lock of a mutex by its owner (copying,
// assigning or swapping an object with itself must not do that) is reported instead of hanging
struct PolHeterFilter { using Mixins = eventpp::MixinList<eventpp::MixinHeterFilter>; using Threading = CheckedThreading; };
struct PolHeterChecked { using Threading = CheckedThreading; };

using TDisp = eventpp::EventDispatcher<int, void (int), PolExFilter>;
using TQueue = eventpp::EventQueue<int, void (int), PolExFilter>;
using THList = eventpp::HeterCallbackList<HL>;
using THDisp = eventpp::HeterEventDispatcher<int, HL, PolHeterFilter>;
using THQueue = eventpp::HeterEventQueue<int, HL, PolHeterChecked>;

const std::string kStr = "a string argument that does not fit the small buffer";

// per container kind: how to reach a list, add, remove, enumerate, dispatch
template <typename T> struct Ops;
template <typename D> struct HomoOps
{
	using Handle = typename D::Handle;
	static Handle add(D & d, int list, int how, int id) { return how & 1 ? d.prependListener(list, L(id)) : d.appendListener(list, L(id)); }
	static bool remove(D & d, int list, const Handle & h) { return d.removeListener(list, h); }
	static void each(D & d, int list, std::vector<Handle> & out) { d.forEach(list, [&](const Handle & h, const typename D::Callback &) { out.push_back(h); }); }
	static void dispatch(D & d, int list, int arg) { d.dispatch(list, arg); }
	enum { filters = 1 };
	static typename D::FilterHandle addFilter(D & d, int id) { return d.appendFilter(F(id)); }
	static bool removeFilter(D & d, const typename D::FilterHandle & h) { return d.removeFilter(h); }
};
template <> struct Ops<TDisp> : HomoOps<TDisp> { enum { queue = 0, wait = 0 }; };
template <> struct Ops<TQueue> : HomoOps<TQueue> {
	enum { queue = 1, wait = 1 };
	static void enqueue(TQueue & q, int list, int arg) { q.enqueue(list, arg); }
};
template <typename D> struct HeterDispOps
{
	using Handle = typename D::Handle;
	static Handle add(D & d, int list, int how, int id) { return how & 1 ? d.prependListener(list >> 1, L(id)) : d.appendListener(list >> 1, L(id)); }
	// L is callable with both prototypes and therefore always binds to the first; the second prototype gets a string-only wrapper
	struct LS { L l; void operator() (const std::string & s) const { l(s); } };
	static Handle add2(D & d, int list, int how, int id) { LS ls { L(id) }; return how & 1 ? d.prependListener(list >> 1, ls) : d.appendListener(list >> 1, ls); }
	static bool remove(D & d, int list, const Handle & h) { return d.removeListener(list >> 1, h); }
	static void each(D & d, int list, std::vector<Handle> & out) {
		if(list & 1) d.template forEach<void (const std::string &)>(list >> 1, [&](const Handle & h, const std::function<void (const std::string &)> &) { out.push_back(h); });
		else d.template forEach<void (int)>(list >> 1, [&](const Handle & h, const std::function<void (int)> &) { out.push_back(h); });
	}
	static void dispatch(D & d, int list, int arg) { if(list & 1) d.dispatch(list >> 1, kStr); else d.dispatch(list >> 1, arg); }
};
template <> struct Ops<THDisp> : HeterDispOps<THDisp> {
	enum { queue = 0, wait = 0, filters = 1 };
	struct FS { F f; bool operator() (int & a) const { return f(a); } };
	static THDisp::FilterHandle addFilter(THDisp & d, int id) { return d.appendFilter(FS { F(id) }); }
	static bool removeFilter(THDisp & d, const THDisp::FilterHandle & h) { return d.removeFilter(h); }
};
template <> struct Ops<THQueue> : HeterDispOps<THQueue> {
	enum { queue = 1, wait = 1, filters = 0 };
	static void enqueue(THQueue & q, int list, int arg) { if(list & 1) q.enqueue(list >> 1, kStr); else q.enqueue(list >> 1, arg); }
};
template <> struct Ops<THList>
{
	using Handle = THList::Handle;
	struct LS { L l; void operator() (const std::string & s) const { l(s); } };
	// one list object: "list" = prototype only (bit 0); the key bit is ignored by mapping lists 2,3 onto 0,1
	static Handle add(THList & d, int, int how, int id) { return how & 1 ? d.prepend(L(id)) : d.append(L(id)); }
	static Handle add2(THList & d, int, int how, int id) { LS ls { L(id) }; return how & 1 ? d.prepend(ls) : d.append(ls); }
	static bool remove(THList & d, int, const Handle & h) { return d.remove(h); }
	static void each(THList & d, int list, std::vector<Handle> & out) {
		if(list & 1) d.forEach<void (const std::string &)>([&](const Handle & h, const std::function<void (const std::string &)> &) { out.push_back(h); });
		else d.forEach<void (int)>([&](const Handle & h, const std::function<void (int)> &) { out.push_back(h); });
	}
	static void dispatch(THList & d, int list, int arg) { if(list & 1) d(kStr); else d(arg); }
	enum { queue = 0, wait = 0, filters = 0 };
};

template <typename T, bool Heter, bool OneObjectLists>
struct Subject : ISubject
{
	using O = Ops<T>;
	using Handle = typename O::Handle;
	struct Slot
	{
		alignas(T) unsigned char buf[sizeof(T)];
		T * p = nullptr;
		std::vector<Handle> handles[kLists];
	};
	Slot slots[kSlots];
	~Subject() override { for(int i = 0; i < kSlots; ++i) destroy(i); }
	T & obj(int s) { return *slots[s].p; }
	static int norm(int list) { return OneObjectLists ? (list & 1) : list; }
	void fillSlot(int s, int fill) { static const unsigned char pat[4] = { 0x00, 0xff, 0xaa, 0x5c }; memset(slots[s].buf, pat[fill & 3], sizeof(T)); }

	bool isQueue() const override { return O::queue != 0; }
	bool hasFilters() const override { return O::filters != 0; }
	bool canWait() const override { return O::wait != 0; }
	void create(int s, int fill) override { fillSlot(s, fill); slots[s].p = new (slots[s].buf) T(); for(auto & h : slots[s].handles) h.clear(); }
	void destroy(int s) override { if(slots[s].p) { slots[s].p->~T(); slots[s].p = nullptr; } for(auto & h : slots[s].handles) h.clear(); filterHandles[s].clear(); }

	Handle doAdd(int s, int list, int how, int id, std::true_type) { return (list & 1) ? O::add2(obj(s), list, how, id) : O::add(obj(s), list, how, id); }
	Handle doAdd(int s, int list, int how, int id, std::false_type) { return O::add(obj(s), list, how, id); }
	void add(int s, int list, int how, int id) override {
		list = norm(list);
		Handle h = doAdd(s, list, how, id, std::integral_constant<bool, Heter>());
		auto & v = slots[s].handles[list];
		if(how & 1) v.insert(v.begin(), h); else v.push_back(h);
	}
	bool remove(int s, int list, int nth) override {
		list = norm(list);
		auto & v = slots[s].handles[list];
		if(nth < 0 || (size_t)nth >= v.size()) return false;
		bool r = O::remove(obj(s), list, v[(size_t)nth]);
		v.erase(v.begin() + nth);
		return r;
	}

	// filters (subjects without filters never get these calls)
	template <typename X> struct FH { using type = int; };
	std::vector<std::shared_ptr<void> > filterHandles[kSlots];
	template <bool B> typename std::enable_if<B>::type doAddFilter(int s, int id) {
		using FHandle = decltype(O::addFilter(obj(s), id));
		filterHandles[s].push_back(std::make_shared<FHandle>(O::addFilter(obj(s), id)));
	}
	template <bool B> typename std::enable_if<! B>::type doAddFilter(int, int) {}
	template <bool B> typename std::enable_if<B, bool>::type doRemoveFilter(int s, int nth) {
		using FHandle = decltype(O::addFilter(obj(s), 0));
		auto & v = filterHandles[s];
		if(nth < 0 || (size_t)nth >= v.size()) return false;
		bool r = O::removeFilter(obj(s), *std::static_pointer_cast<FHandle>(v[(size_t)nth]));
		v.erase(v.begin() + nth);
		return r;
	}
	template <bool B> typename std::enable_if<! B, bool>::type doRemoveFilter(int, int) { return false; }
	void addFilter(int s, int id) override { doAddFilter<(O::filters != 0)>(s, id); }
	bool removeFilter(int s, int nth) override { return doRemoveFilter<(O::filters != 0)>(s, nth); }

	void dispatch(int s, int list, int arg) override { O::dispatch(obj(s), norm(list), arg); }
	template <bool B> typename std::enable_if<B>::type doEnqueue(int s, int list, int arg) { O::enqueue(obj(s), norm(list), arg); }
	template <bool B> typename std::enable_if<! B>::type doEnqueue(int, int, int) {}
	template <bool B> typename std::enable_if<B, bool>::type doProcess(int s) { return obj(s).process(); }
	template <bool B> typename std::enable_if<! B, bool>::type doProcess(int) { return false; }
	template <bool B> typename std::enable_if<B, bool>::type doEmpty(int s) { return obj(s).emptyQueue(); }
	template <bool B> typename std::enable_if<! B, bool>::type doEmpty(int) { return true; }
	template <bool B> typename std::enable_if<B, int>::type doWait(int s) { return obj(s).waitFor(std::chrono::milliseconds(0)) ? 1 : 0; }
	template <bool B> typename std::enable_if<! B, int>::type doWait(int) { return -1; }
	void enqueue(int s, int list, int arg) override { doEnqueue<(O::queue != 0)>(s, list, arg); }
	bool process(int s) override { return doProcess<(O::queue != 0)>(s); }
	bool emptyQ(int s) override { return doEmpty<(O::queue != 0)>(s); }
	int waitFor0(int s) override { return doWait<(O::wait != 0)>(s); }

	void copyCtor(int src, int dst, int fill) override { fillSlot(dst, fill); slots[dst].p = new (slots[dst].buf) T(static_cast<const T &>(obj(src))); filterHandles[dst].clear(); }
	void copyAssign(int dst, int src) override { obj(dst) = static_cast<const T &>(obj(src)); if(dst != src) filterHandles[dst].clear(); }
	void moveCtor(int src, int dst, int fill) override {
		fillSlot(dst, fill);
		slots[dst].p = new (slots[dst].buf) T(std::move(obj(src)));
		for(int l = 0; l < kLists; ++l) { slots[dst].handles[l] = slots[src].handles[l]; slots[src].handles[l].clear(); }
		filterHandles[dst] = filterHandles[src]; filterHandles[src].clear();
	}
	void moveAssign(int dst, int src) override {
		obj(dst) = std::move(obj(src));
		for(int l = 0; l < kLists; ++l) { slots[dst].handles[l] = slots[src].handles[l]; slots[src].handles[l].clear(); }
		filterHandles[dst] = filterHandles[src]; filterHandles[src].clear();
	}
	void swapObjs(int a, int b) override {
		obj(a).swap(obj(b));
		for(int l = 0; l < kLists; ++l) slots[a].handles[l].swap(slots[b].handles[l]);
		filterHandles[a].swap(filterHandles[b]);
	}
	std::vector<int> harvest(int s) override {
		std::vector<int> counts;
		for(int l = 0; l < kLists; ++l) {
			if(OneObjectLists && l >= 2) { counts.push_back(0); continue; }
			std::vector<Handle> got;
			O::each(obj(s), l, got);
			slots[s].handles[l] = got;
			counts.push_back((int)got.size());
		}
		return counts;
	}
	int harvestFilters(int) override { return -1; }
};

const int kConfigs = 5;
ISubject * makeSubject(int cfg)
{
	switch(cfg) {
	case 0: return new Subject<TDisp, false, false>();
	case 1: return new Subject<TQueue, false, false>();
	case 2: return new Subject<THList, true, true>();
	case 3: return new Subject<THDisp, true, false>();
	default: return new Subject<THQueue, true, false>();
	}
}

// ---------------------------------------------------------------- model

struct MObj
{
	bool alive = false;
	std::vector<int> lists[kLists];  // listener ids in list order
	std::vector<int> filters;        // filter ids in order
	std::vector<std::pair<int, int> > pending; // (list, arg)
	bool filtersKnown = true;        // false after a copy: the harness holds no handles for the copied filters
};

struct Interp
{
	const Program & prog;
	Verdict & v;
	std::unique_ptr<ISubject> impl;
	MObj m[kSlots];
	int nextId = 0;
	bool failed = false;
	bool oneObjectLists = false;
	std::ostringstream log;
	int transferStage = 0; bool dirty = false, copiedWithPending = false, filterCopied = false;

	Interp(const Program & p, Verdict & v_) : prog(p), v(v_) {}
	void fail(const std::string & rule, const std::string & msg) {
		if(failed) return;
		failed = true;
		std::string s = log.str();
		if(s.size() > 600) s = "..." + s.substr(s.size() - 600);
		v.fail(rule, "C10", msg + " | log: " + s);
	}
	int pickLive(int c) const {
		int n = 0; for(int s = 0; s < kSlots; ++s) if(m[s].alive) ++n;
		if(! n) return -1;
		int k = ((c % n) + n) % n;
		for(int s = 0; s < kSlots; ++s) if(m[s].alive && k-- == 0) return s;
		return -1;
	}
	int pickDead() const { for(int s = 0; s < kSlots; ++s) if(! m[s].alive) return s; return -1; }
	int listOf(int a) const { int l = ((a % kLists) + kLists) % kLists; return oneObjectLists ? (l & 1) : l; }

	// what a dispatch on (slot, list) must show: every filter (in order, each seeing the value rewritten so far), then the listeners
	void checkDispatch(int s, int list, int arg, const std::vector<Seen> & seen, const char * what) {
		std::vector<Seen> expect;
		long a = arg;
		const bool heterSecond = impl->hasFilters() && false;
		(void)heterSecond;
		if(impl->hasFilters() && ! isStringList(list)) {
			for(int f : m[s].filters) { expect.push_back(Seen { -f - 1, a }); a += 1000; }
		}
		for(int id : m[s].lists[list]) expect.push_back(Seen { id, isStringList(list) ? (long)kStr.size() : a });
		bool same = expect.size() == seen.size();
		for(size_t i = 0; same && i < expect.size(); ++i) same = expect[i].id == seen[i].id && expect[i].arg == seen[i].arg;
		if(! same) {
			std::ostringstream o;
			o << what << " on object " << s << " list " << list << " ran [";
			for(const Seen & x : seen) o << ' ' << (x.id < 0 ? "f" : "l") << (x.id < 0 ? -x.id - 1 : x.id) << '(' << x.arg << ')';
			o << " ] expected [";
			for(const Seen & x : expect) o << ' ' << (x.id < 0 ? "f" : "l") << (x.id < 0 ? -x.id - 1 : x.id) << '(' << x.arg << ')';
			o << " ]";
			fail("copy.dispatch", o.str());
		}
	}
	bool heter = false;
	bool isStringList(int list) const { return heter && (list & 1); }

	void probeAll(const char * when) {
		// every live object dispatches every list: copies must be independent, moved-to objects complete
		for(int s = 0; s < kSlots && ! failed; ++s) {
			if(! m[s].alive) continue;
			for(int l = 0; l < kLists && ! failed; ++l) {
				if(oneObjectLists && l >= 2) continue;
				std::vector<Seen> seen;
				g_seen = &seen;
				impl->dispatch(s, l, 7);
				g_seen = nullptr;
				checkDispatch(s, l, 7, seen, when);
			}
			if(impl->isQueue() && ! failed) {
				bool e = impl->emptyQ(s);
				if(e != m[s].pending.empty()) fail("copy.queue.empty", std::string(when) + ": emptyQueue() of object " + std::to_string(s) + " is " + std::to_string(e) + " with " + std::to_string(m[s].pending.size()) + " pending");
				int w = impl->waitFor0(s);
				if(! failed && w >= 0 && w != (m[s].pending.empty() ? 0 : 1)) fail("copy.queue.waitFor", std::string(when) + ": waitFor(0) of object " + std::to_string(s) + " returned " + std::to_string(w));
			}
		}
	}

	void adopt(int s, const char * what) {
		std::vector<int> counts = impl->harvest(s);
		for(int l = 0; l < kLists; ++l) {
			if(oneObjectLists && l >= 2) continue;
			if(counts[(size_t)l] != (int)m[s].lists[l].size()) {
				fail("copy.count", std::string(what) + ": object " + std::to_string(s) + " list " + std::to_string(l) + " holds " + std::to_string(counts[(size_t)l]) + " listeners, expected " + std::to_string(m[s].lists[l].size()));
				return;
			}
		}
	}

	void execOp(const Op & op) {
		const int s = pickLive(op.c);
		log << ' ' << kindName(op.kind);
		switch(op.kind) {
		case X_NEW: {
			int d = pickDead(); if(d < 0) break;
			m[d] = MObj(); m[d].alive = true;
			impl->create(d, op.b);
			if(op.b & 3) dirty = true;
			break;
		}
		case X_ADD: {
			if(s < 0) break;
			int list = listOf(op.a), id = nextId++;
			if(op.b & 1) m[s].lists[list].insert(m[s].lists[list].begin(), id); else m[s].lists[list].push_back(id);
			impl->add(s, list, op.b, id);
			if(transferStage == 1) transferStage = 2;
			break;
		}
		case X_REMOVE: {
			if(s < 0) break;
			int list = listOf(op.a);
			auto & l = m[s].lists[list];
			if(l.empty()) break;
			int nth = ((op.b % (int)l.size()) + (int)l.size()) % (int)l.size();
			l.erase(l.begin() + nth);
			if(! impl->remove(s, list, nth)) fail("copy.remove", "removeListener returned false for a listener of the object");
			if(transferStage == 1) transferStage = 2;
			break;
		}
		case X_FILTER: {
			if(s < 0 || ! impl->hasFilters() || ! m[s].filtersKnown) break;
			int id = nextId++;
			m[s].filters.push_back(id);
			impl->addFilter(s, id);
			break;
		}
		case X_RMFILTER: {
			if(s < 0 || ! impl->hasFilters() || ! m[s].filtersKnown || m[s].filters.empty()) break;
			int nth = ((op.b % (int)m[s].filters.size()) + (int)m[s].filters.size()) % (int)m[s].filters.size();
			m[s].filters.erase(m[s].filters.begin() + nth);
			if(! impl->removeFilter(s, nth)) fail("copy.removeFilter", "removeFilter returned false for a filter of the object");
			break;
		}
		case X_DISPATCH: {
			if(s < 0) break;
			int list = listOf(op.a);
			std::vector<Seen> seen;
			g_seen = &seen;
			impl->dispatch(s, list, op.b);
			g_seen = nullptr;
			checkDispatch(s, list, op.b, seen, "dispatch");
			break;
		}
		case X_ENQ: {
			if(s < 0 || ! impl->isQueue()) break;
			int list = listOf(op.a);
			m[s].pending.push_back(std::make_pair(list, op.b));
			impl->enqueue(s, list, op.b);
			break;
		}
		case X_PROCESS: {
			if(s < 0 || ! impl->isQueue()) break;
			std::vector<Seen> seen;
			g_seen = &seen;
			bool r = impl->process(s);
			g_seen = nullptr;
			std::vector<Seen> expect;
			for(const auto & e : m[s].pending) {
				long a = e.second;
				if(impl->hasFilters() && ! isStringList(e.first)) for(int f : m[s].filters) { expect.push_back(Seen { -f - 1, a }); a += 1000; }
				for(int id : m[s].lists[e.first]) expect.push_back(Seen { id, isStringList(e.first) ? (long)kStr.size() : a });
			}
			bool same = expect.size() == seen.size() && r == ! m[s].pending.empty();
			for(size_t i = 0; same && i < expect.size(); ++i) same = expect[i].id == seen[i].id && expect[i].arg == seen[i].arg;
			if(! same) fail("copy.process", "process() on object " + std::to_string(s) + " ran " + std::to_string(seen.size()) + " callbacks (expected " + std::to_string(expect.size()) + "), returned " + std::to_string(r));
			m[s].pending.clear();
			break;
		}
		case X_EMPTY: {
			if(s < 0 || ! impl->isQueue()) break;
			bool e = impl->emptyQ(s);
			if(e != m[s].pending.empty()) fail("copy.queue.empty", "emptyQueue() is " + std::to_string(e) + " with " + std::to_string(m[s].pending.size()) + " pending");
			break;
		}
		case X_COPYCTOR: {
			int d = pickDead(); if(s < 0 || d < 0) break;
			m[d] = m[s];
			m[d].pending.clear();
			m[d].filtersKnown = m[s].filters.empty();
			if(! m[s].pending.empty()) copiedWithPending = true;
			if(! m[s].filters.empty()) filterCopied = true;
			impl->copyCtor(s, d, op.b);
			if(op.b & 3) dirty = true;
			adopt(d, "after copy construction");
			transferStage = 1;
			break;
		}
		case X_COPYASSIGN: {
			int src = pickLive(op.b); if(s < 0 || src < 0) break;
			if(impl->isQueue() && ! m[s].pending.empty()) break; // destination without pending events (see DESIGN C10)
			if(src != s) {
				std::vector<std::pair<int, int> > keep = m[s].pending;
				m[s] = m[src];
				m[s].pending = keep;
				m[s].filtersKnown = m[src].filters.empty();
				if(! m[src].filters.empty()) filterCopied = true;
			}
			impl->copyAssign(s, src);
			adopt(s, "after copy assignment");
			transferStage = 1;
			break;
		}
		case X_MOVECTOR: {
			int d = pickDead(); if(s < 0 || d < 0) break;
			m[d] = m[s];
			m[d].pending.clear();
			for(auto & l : m[s].lists) l.clear();
			m[s].filters.clear(); m[s].filtersKnown = true;
			impl->moveCtor(s, d, op.b);
			if(op.b & 3) dirty = true;
			adoptMovedFrom(s);
			transferStage = 1;
			break;
		}
		case X_MOVEASSIGN: {
			int src = pickLive(op.b); if(s < 0 || src < 0 || src == s) break;
			if(impl->isQueue() && ! m[s].pending.empty()) break;
			std::vector<std::pair<int, int> > keep = m[s].pending;
			m[s] = m[src];
			m[s].pending = keep;
			for(auto & l : m[src].lists) l.clear();
			m[src].filters.clear(); m[src].filtersKnown = true;
			impl->moveAssign(s, src);
			adoptMovedFrom(src);
			transferStage = 1;
			break;
		}
		case X_SWAP: {
			int o2 = pickLive(op.b); if(s < 0 || o2 < 0) break;
			if(impl->isQueue() && (! m[s].pending.empty() || ! m[o2].pending.empty())) break; // swap exchanges listeners; pending events are not specified
			if(! m[s].filters.empty() || ! m[o2].filters.empty() || ! m[s].filtersKnown || ! m[o2].filtersKnown) break; // nor are filters (swap() is the dispatcher's, the mixin adds none)
			for(int l = 0; l < kLists; ++l) m[s].lists[l].swap(m[o2].lists[l]);
			m[s].filters.swap(m[o2].filters);
			std::swap(m[s].filtersKnown, m[o2].filtersKnown);
			impl->swapObjs(s, o2);
			transferStage = 1;
			break;
		}
		case X_DESTROY: {
			int live = 0; for(int i = 0; i < kSlots; ++i) if(m[i].alive) ++live;
			if(s < 0 || live <= 1) break;
			m[s] = MObj();
			impl->destroy(s);
			break;
		}
		default: break;
		}
		if(! failed && op.kind >= X_COPYCTOR && op.kind <= X_DESTROY) probeAll(kindName(op.kind));
		if(! failed && ledger().isFlagged()) { failed = true; v.fail("ledger.flag", "C08,C10", ledger().message()); }
	}

	// the statement only says "valid": adopt the listener counts the source reports (they must be its own or none)
	void adoptMovedFrom(int s) {
		std::vector<int> counts = impl->harvest(s);
		for(int l = 0; l < kLists; ++l) {
			if(counts[(size_t)l] != 0) {
				// a moved-from object that still lists callbacks: the model cannot know which; require it to be empty (all
				// standard-container based implementations are) - reported as a check limitation, not a violation
				m[s].lists[l].assign((size_t)counts[(size_t)l], -1);
			}
		}
	}

	void run() {
		const int cfg = prog.params.empty() ? 0 : ((prog.params[0] % kConfigs) + kConfigs) % kConfigs;
		impl.reset(makeSubject(cfg));
		oneObjectLists = cfg == 2;
		heter = cfg >= 2;
		m[0].alive = true;
		impl->create(0, prog.params.size() > 1 ? prog.params[1] : 0);
		for(const Op & op : prog.ops) { if(failed) break; execOp(op); }
		if(! failed) probeAll("final probe");
		for(int s = 0; s < kSlots; ++s) m[s] = MObj();
		impl.reset();
		if(! failed) {
			if(ledger().isFlagged()) { failed = true; v.fail("ledger.flag", "C08,C10", ledger().message()); }
			else if(ledger().totalLive() != 0) { failed = true; v.fail("ledger.leak", "C08,C10", std::to_string(ledger().totalLive()) + " listener/filter object(s) alive after every container was destroyed"); }
		}
	}
};

Grammar makeGrammar()
{
	Grammar g;
	g.params = { ArgSpec(0, kConfigs - 1), ArgSpec(0, 3) };
	g.maxDepth = 1;
	g.maxTotalOps = 80;
	Level top;
	top.minOps = 1;
	top.maxOps = 50;
	const ArgSpec slot(0, 3), list(0, 3), any(0, 500);
	top.kinds = {
		{ X_NEW, "new", 3, ArgSpec(0, 0), ArgSpec(0, 3), ArgSpec(0, 0), -1, 0 },
		{ X_ADD, "addListener", 18, list, ArgSpec(0, 1), slot, -1, 0 },
		{ X_REMOVE, "removeListener", 5, list, any, slot, -1, 0 },
		{ X_FILTER, "appendFilter", 5, ArgSpec(0, 0), ArgSpec(0, 0), slot, -1, 0 },
		{ X_RMFILTER, "removeFilter", 2, ArgSpec(0, 0), any, slot, -1, 0 },
		{ X_DISPATCH, "dispatch", 6, list, any, slot, -1, 0 },
		{ X_ENQ, "enqueue", 6, list, any, slot, -1, 0 },
		{ X_PROCESS, "process", 3, ArgSpec(0, 0), ArgSpec(0, 0), slot, -1, 0 },
		{ X_EMPTY, "emptyQueue", 2, ArgSpec(0, 0), ArgSpec(0, 0), slot, -1, 0 },
		{ X_COPYCTOR, "copyCtor", 6, ArgSpec(0, 0), ArgSpec(0, 3), slot, -1, 0 },
		{ X_COPYASSIGN, "copyAssign", 5, ArgSpec(0, 0), slot, slot, -1, 0 },
		{ X_MOVECTOR, "moveCtor", 5, ArgSpec(0, 0), ArgSpec(0, 3), slot, -1, 0 },
		{ X_MOVEASSIGN, "moveAssign", 4, ArgSpec(0, 0), slot, slot, -1, 0 },
		{ X_SWAP, "swap", 5, ArgSpec(0, 0), slot, slot, -1, 0 },
		{ X_DESTROY, "destroy", 3, ArgSpec(0, 0), ArgSpec(0, 0), slot, -1, 0 },
	};
	g.levels.push_back(top);
	return g;
}
const Grammar & grammar(const std::string &) { static Grammar g = makeGrammar(); return g; }

long g_caseCounter = 0;
Verdict run(const Program & p, const std::string &)
{
	Verdict v;
	v.trace.reserve(4096);
	v.classes.reserve(8);
	ledger().reset();
	LeakScope scope;
	{
		Interp in(p, v);
		in.run();
		auto cls = [&](bool b, const char * n) { if(b) v.classes.push_back(n); };
		cls(in.transferStage == 2, "transfer_then_mutation");
		cls(in.dirty, "dirty_storage");
		cls(in.copiedWithPending, "queue_copied_with_pending_events");
		cls(in.filterCopied, "filters_copied");
		cls(in.heter, "heterogeneous_container");
		v.nontrivial = in.transferStage == 2;
		const std::string full = in.log.str();
		v.trace.assign(full, 0, std::min<size_t>(full.size(), 4000));
	}
	ledger().reset();
	if(v.ok && (scope.grew() || (++g_caseCounter & 1023) == 0)) {
		if(confirmLeak()) v.fail("lsan.leak", "C08,C10", "LeakSanitizer: memory unreachable after every container was destroyed", "lsan.leak");
	}
	return v;
}
} // namespace

namespace vf {
const Harness g_harness = { "copy", &grammar, &run, &kindName, nullptr };
}
