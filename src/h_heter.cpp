// Harness `heter`: HeterCallbackList / HeterEventDispatcher / HeterEventQueue (C14): routing by prototype,
// first-match selection, recycled slots across prototypes of different size, processIf per predicate prototype.
#include <eventpp/hetereventqueue.h>

#include "common/harness.h"
#include "common/ledger.h"
#include "common/models.h"
#include "common/leak.h"
#include "common/faultmode.h"

#include <deque>
#include <memory>
#include <set>
#include <sstream>

namespace {
using namespace vf;

enum Kind { H_ADD = 1, H_REMOVE, H_DISPATCH, H_ENQ, H_PROCESS, H_PROCESSONE, H_PROCESSIF, H_CLEAR, H_EMPTYQ, H_FOREACH, H_HASANY, H_COPY, H_MAX };
const char * kindName(int k)
{
	static const char * n[] = { "?", "addListener", "removeListener", "dispatch", "enqueue", "process", "processOne", "processIf", "clearEvents", "emptyQueue", "forEach", "hasAnyListener", "copy" };
	return (k > 0 && k < H_MAX) ? n[k] : "?";
}

const int kKeys = 2;
const int kMaxProtos = 4;
using Summary = std::vector<long long>;

struct Big : LedgeredT<3>
{
	explicit Big(int serial = 0, int v = 0) : LedgeredT<3>(kPayloadBase + 500000 + serial), value(v) { for(int i = 0; i < 18; ++i) pad[i] = v + i; }
	int value;
	int pad[18];
	bool ok() const { if(! magicOk() || isMoved()) return false; for(int i = 0; i < 18; ++i) if(pad[i] != value + i) return false; return true; }
};

inline void desc(Summary & s, int v) { s.push_back(1); s.push_back(v); }
inline void desc(Summary & s, long v) { s.push_back(1); s.push_back(v); } // same tag as int: listeners may take either
inline void desc(Summary & s, const std::string & v) { s.push_back(3); s.push_back((long long)(fnv1a(v) & 0xffffffffffffll)); s.push_back((long long)v.size()); }
inline void desc(Summary & s, const Big & b) { b.touch(); s.push_back(4); s.push_back(b.value); s.push_back(b.ok() ? 1 : 0); }
inline void desc(Summary & s, const Tracked & t) { s.push_back(5); s.push_back(t.value); s.push_back(t.intact() ? 1 : 0); }
inline void descAll(Summary &) {}
template <typename A, typename ...R> void descAll(Summary & s, const A & a, const R & ...r) { desc(s, a); descAll(s, r...); }

struct Interp;
Interp * g_h = nullptr;
bool g_failedAssignChangedDestination = false;
void deliver(int cb, const Summary & s);
bool deliverPred(const Summary & s);

template <typename ...P>
struct Fn : LedgeredT<2>
{
	explicit Fn(int cb) : LedgeredT<2>(kCbBase + cb) {}
	void operator() (P ...p) const { touch(); Summary s; descAll(s, p...); deliver(id - kCbBase, s); }
};
struct FnGeneric : LedgeredT<2>
{
	explicit FnGeneric(int cb) : LedgeredT<2>(kCbBase + cb) {}
	template <typename ...A> void operator() (const A & ...a) const { touch(); Summary s; descAll(s, a...); deliver(id - kCbBase, s); }
};
template <typename ...P>
struct Pr
{
	bool operator() (P ...p) const { Summary s; descAll(s, p...); return deliverPred(s); }
};
// a predicate callable with two of the prototypes
struct PrIntOrString
{
	bool operator() (int v) const { Summary s; descAll(s, v); return deliverPred(s); }
	bool operator() (const std::string & v) const { Summary s; descAll(s, v); return deliverPred(s); }
};

struct IHeter
{
	virtual ~IHeter() {}
	virtual int protoCount() const = 0;
	virtual int callableKinds() const = 0;
	virtual int argKinds() const = 0;
	virtual int predKinds() const = 0;
	virtual bool isQueue() const = 0;
	// expected prototype index of a callable / argument kind (hand-written table, independent of the library's selection)
	virtual int protoOfCallable(int kind) const = 0;
	virtual int protoOfArgs(int kind) const = 0;
	// set of prototypes a predicate kind is callable with (bit mask)
	virtual int protosOfPred(int kind) const = 0;
	virtual void add(int key, int kind, int how, int before, int cb) = 0;
	virtual bool remove(int key, int h) = 0;
	virtual void dispatch(int key, int argKind, int serial, int value, Summary & expect) = 0;
	virtual void enqueue(int key, int argKind, int serial, int value, Summary & expect) = 0;
	virtual bool process() = 0;
	virtual bool processOne() = 0;
	virtual bool processIf(int predKind) = 0;
	virtual void clear() = 0;
	virtual bool emptyQ() = 0;
	virtual bool hasAny(int key) = 0;
	virtual void forEach(int key, int proto, std::vector<int> & out) = 0;
	// forEach<Prototype> selects by first match too: a shadowed prototype cannot be named
	virtual bool canEnumerate(int) const { return true; }
	// known finding E12 (KNOWN_FINDINGS.txt, heter.queue.nonconstref): an event enqueued for a prototype with a non-const
	// reference parameter is dispatched at processing time by selecting the prototype again from const lvalues, i.e. to the
	// listeners of a later prototype. Argument kinds for which that happens are not enqueued (counted instead), except when
	// the driver asks for known findings.
	virtual bool enqueueHitsKnownFinding(int) const { return false; }
	// copy-construct (how=0) or copy-assign (how=1) a second queue from this one, check it lists the same number of
	// listeners, destroy it; returns false if the copy differs
	virtual bool copyProbe(int how) = 0;
	virtual size_t handleCount() const = 0;
};

std::string strOf(int serial, int value) { return "payload-" + std::to_string(serial) + "-" + std::to_string(value) + "-long enough to be on the heap........"; }

template <typename Q>
struct HBase : IHeter
{
	using Handle = typename Q::Handle;
	Q q;
	std::vector<Handle> handles;
	Handle H(int h) const { return h >= 0 && (size_t)h < handles.size() ? handles[h] : Handle(); }
	template <typename F> void addF(int key, int how, int before, const F & f) {
		handles.push_back(how == 0 ? q.appendListener(key, f) : how == 1 ? q.prependListener(key, f) : q.insertListener(key, f, H(before)));
	}
	bool remove(int key, int h) override { return q.removeListener(key, H(h)); }
	bool isQueue() const override { return true; }
	bool process() override { return q.process(); }
	bool processOne() override { return q.processOne(); }
	void clear() override { q.clearEvents(); }
	bool emptyQ() override { return q.emptyQueue(); }
	bool hasAny(int key) override { return q.hasAnyListener(key); }
	int find(const Handle & h) const {
		for(size_t i = handles.size(); i > 0; --i) {
			const Handle & x = handles[i - 1];
			if(x.index == h.index && ! x.homoHandle.expired() && ! h.homoHandle.expired() && ! x.homoHandle.owner_before(h.homoHandle) && ! h.homoHandle.owner_before(x.homoHandle)) return (int)(i - 1);
		}
		return -2;
	}
	bool copyProbe(int how) override {
		Q other;
		if(how) other = q;
		Q third(how ? other : q);
		for(int k = 0; k < kKeys; ++k) if(third.hasAnyListener(k) != q.hasAnyListener(k)) return false;
		return true;
	}
	template <typename Proto> void each(int key, std::vector<int> & out) {
		q.template forEach<Proto>(key, [&](const Handle & h, const std::function<Proto> &) { out.push_back(find(h)); });
	}
	size_t handleCount() const override { return handles.size(); }
};

// ---- configuration 0: L1 = <void(), void(int), void(const std::string &), void(const Big &)>, event excluded
using L1 = eventpp::HeterTuple<void (), void (int), void (const std::string &), void (const Big &)>;
struct Cfg0 : HBase<eventpp::HeterEventQueue<int, L1> >
{
	int protoCount() const override { return 4; }
	int callableKinds() const override { return 7; }
	int argKinds() const override { return 7; }
	int predKinds() const override { return 6; }
	int protoOfCallable(int k) const override { static const int t[] = { 0, 1, 1, 2, 2, 3, 0 }; return t[k]; }
	int protoOfArgs(int k) const override { static const int t[] = { 0, 1, 1, 2, 2, 3, 1 }; return t[k]; }
	int protosOfPred(int k) const override { static const int t[] = { 1, 2, 4, 8, 2 | 4, 4 }; return t[k]; }
	void add(int key, int kind, int how, int b, int cb) override {
		switch(kind) {
		case 0: addF(key, how, b, Fn<>(cb)); break;
		case 1: addF(key, how, b, Fn<int>(cb)); break;
		case 2: addF(key, how, b, Fn<long>(cb)); break;            // callable with int: binds to void(int)
		case 3: addF(key, how, b, Fn<const std::string &>(cb)); break;
		case 4: addF(key, how, b, Fn<std::string>(cb)); break;
		case 5: addF(key, how, b, Fn<const Big &>(cb)); break;
		default: addF(key, how, b, FnGeneric(cb)); break;          // callable with everything: binds to the first prototype
		}
	}
	template <typename Call> void call(Call c, int argKind, int serial, int value, Summary & e) {
		switch(argKind) {
		case 0: c(); break;
		case 1: descAll(e, value); c(value); break;
		case 2: descAll(e, (int)(short)value); c((short)value); break;
		case 3: { std::string s = strOf(serial, value); descAll(e, s); c(s); s.assign("x"); break; }
		case 4: descAll(e, std::string("lit")); c("lit"); break;
		case 5: { Big b(serial, value); descAll(e, b); c(b); break; }
		default: descAll(e, (int)(double)(value + 0.5)); c((double)value + 0.5); break;
		}
	}
	void dispatch(int key, int argKind, int serial, int value, Summary & e) override {
		call([&](auto && ...a) { q.dispatch(key, std::forward<decltype(a)>(a)...); }, argKind, serial, value, e);
	}
	void enqueue(int key, int argKind, int serial, int value, Summary & e) override {
		call([&](auto && ...a) { q.enqueue(key, std::forward<decltype(a)>(a)...); }, argKind, serial, value, e);
	}
	bool processIf(int k) override {
		switch(k) {
		case 0: return q.processIf(Pr<>());
		case 1: return q.processIf(Pr<int>());
		case 2: return q.processIf(Pr<const std::string &>());
		case 3: return q.processIf(Pr<const Big &>());
		case 4: return q.processIf(PrIntOrString());
		default: return q.processIf(Pr<std::string>()); // takes the argument by value: the listeners must still receive it intact
		}
	}
	void forEach(int key, int proto, std::vector<int> & out) override {
		switch(proto) {
		case 0: each<void ()>(key, out); break;
		case 1: each<void (int)>(key, out); break;
		case 2: each<void (const std::string &)>(key, out); break;
		default: each<void (const Big &)>(key, out); break;
		}
	}
	// also the bare HeterCallbackList: copy construction and copy assignment (incl. self) of a list with callbacks of two prototypes
	bool copyProbe(int how) override {
		if(! HBase<eventpp::HeterEventQueue<int, L1> >::copyProbe(how)) return false;
		eventpp::HeterCallbackList<L1> a;
		a.append(Fn<>(900001));
		a.append(Fn<int>(900002));
		a.append(Fn<int>(900003));
		eventpp::HeterCallbackList<L1> b;
		b.append(Fn<const std::string &>(900004));
		b.append(Fn<>(900005));
		b.append(Fn<>(900006));
		// callback-list assignment that fails must leave the destination exactly as it was (C09): b holds one callback of the
		// third prototype and two of the first, a holds callbacks of the first and second
		try {
			if(how) { b = a; b = b; } else { eventpp::HeterCallbackList<L1> c(a); b.swap(c); }
		}
		catch(...) {
			int strs = 0, voids = 0, ints = 0;
			{
				FaultPause p;
				b.forEach<void (const std::string &)>([&](const std::function<void (const std::string &)> &) { ++strs; });
				b.forEach<void ()>([&](const std::function<void ()> &) { ++voids; });
				b.forEach<void (int)>([&](const std::function<void (int)> &) { ++ints; });
			}
			if(strs != 1 || voids != 2 || ints != 0) g_failedAssignChangedDestination = true;
			throw;
		}
		int seen = 0;
		b.forEach<void (int)>([&](const std::function<void (int)> &) { ++seen; });
		b.forEach<void ()>([&](const std::function<void ()> &) { ++seen; });
		b.forEach<void (const std::string &)>([&](const std::function<void (const std::string &)> &) { seen += 10; });
		return seen == 3 && ! a.empty();
	}
};

// ---- configuration 1: L2 = <void(long), void(int), void(Tracked, int)>: an int argument matches the FIRST prototype
using L2 = eventpp::HeterTuple<void (long), void (int), void (Tracked, int)>;
struct OnlyInt : LedgeredT<2> // accepts int but not long: the only way to bind to the shadowed prototype void(int)
{
	explicit OnlyInt(int cb) : LedgeredT<2>(kCbBase + cb) {}
	void operator() (int v) const { touch(); Summary s; descAll(s, v); deliver(id - kCbBase, s); }
	void operator() (long) const = delete;
};
struct Cfg1 : HBase<eventpp::HeterEventQueue<int, L2> >
{
	int protoCount() const override { return 3; }
	int callableKinds() const override { return 4; }
	int argKinds() const override { return 4; }
	int predKinds() const override { return 2; }
	int protoOfCallable(int k) const override { static const int t[] = { 0, 0, 2, 1 }; return t[k]; }
	int protoOfArgs(int k) const override { static const int t[] = { 0, 0, 2, 0 }; return t[k]; }
	int protosOfPred(int k) const override { static const int t[] = { 1, 4 }; return t[k]; }
	bool canEnumerate(int proto) const override { return proto != 1; } // forEach<void(int)> is callable with long: it names void(long)
	void add(int key, int kind, int how, int b, int cb) override {
		switch(kind) {
		case 0: addF(key, how, b, Fn<long>(cb)); break;
		case 1: addF(key, how, b, Fn<int>(cb)); break;             // callable with long too: first match is void(long)
		case 2: addF(key, how, b, Fn<Tracked, int>(cb)); break;
		default: addF(key, how, b, OnlyInt(cb)); break;
		}
	}
	template <typename Call> void call(Call c, int argKind, int serial, int value, Summary & e) {
		switch(argKind) {
		case 0: descAll(e, (long)value); c((long)value); break;
		case 1: descAll(e, (long)value); c(value); break;          // int argument -> void(long)
		case 2: { Tracked t(serial, value); descAll(e, t, 7); c(t, 7); t.value = -1; t.chk = 0; break; }
		default: descAll(e, (long)(short)value); c((short)value); break;
		}
	}
	void dispatch(int key, int argKind, int serial, int value, Summary & e) override {
		call([&](auto && ...a) { q.dispatch(key, std::forward<decltype(a)>(a)...); }, argKind, serial, value, e);
	}
	void enqueue(int key, int argKind, int serial, int value, Summary & e) override {
		call([&](auto && ...a) { q.enqueue(key, std::forward<decltype(a)>(a)...); }, argKind, serial, value, e);
	}
	bool processIf(int k) override { return k == 0 ? q.processIf(Pr<long>()) : q.processIf(Pr<const Tracked &, int>()); }
	void forEach(int key, int proto, std::vector<int> & out) override {
		switch(proto) {
		case 0: each<void (long)>(key, out); break;
		case 1: each<void (int)>(key, out); break;
		default: each<void (Tracked, int)>(key, out); break;
		}
	}
};

// ---- configuration 2: std::string key, event included: L4 = <void(std::string), void(std::string, int)>
using L4 = eventpp::HeterTuple<void (std::string), void (std::string, int)>;
struct PolInc { using ArgumentPassingMode = eventpp::ArgumentPassingIncludeEvent; };
std::string skey(int k) { return k ? std::string("key one, long enough not to fit the small buffer") : std::string("key zero, long enough not to fit the small buffer"); }
struct Cfg2 : IHeter
{
	using Q = eventpp::HeterEventQueue<std::string, L4, PolInc>;
	using Handle = Q::Handle;
	Q q;
	std::vector<Handle> handles;
	Handle H(int h) const { return h >= 0 && (size_t)h < handles.size() ? handles[h] : Handle(); }
	int protoCount() const override { return 2; }
	int callableKinds() const override { return 2; }
	int argKinds() const override { return 4; }
	int predKinds() const override { return 2; }
	bool isQueue() const override { return true; }
	int protoOfCallable(int k) const override { return k; }
	int protoOfArgs(int k) const override { return k >> 1; }
	int protosOfPred(int k) const override { return 1 << k; }
	template <typename F> void addF(int key, int how, int before, const F & f) {
		handles.push_back(how == 0 ? q.appendListener(skey(key), f) : how == 1 ? q.prependListener(skey(key), f) : q.insertListener(skey(key), f, H(before)));
	}
	void add(int key, int kind, int how, int b, int cb) override {
		if(kind == 0) addF(key, how, b, Fn<std::string>(cb)); else addF(key, how, b, Fn<std::string, int>(cb));
	}
	bool remove(int key, int h) override { return q.removeListener(skey(key), H(h)); }
	void dispatch(int key, int argKind, int, int value, Summary & e) override {
		std::string k = skey(key);
		switch(argKind) {
		case 0: descAll(e, k); q.dispatch(k); break;
		case 1: descAll(e, k); q.dispatch(skey(key)); break;
		case 2: descAll(e, k, value); q.dispatch(k, value); break;
		default: descAll(e, k, value); q.dispatch(skey(key), value); break;
		}
	}
	void enqueue(int key, int argKind, int, int value, Summary & e) override {
		std::string k = skey(key);
		switch(argKind) {
		case 0: descAll(e, k); q.enqueue(k); break;
		case 1: descAll(e, k); q.enqueue(skey(key)); break;
		case 2: descAll(e, k, value); q.enqueue(k, value); break;
		default: descAll(e, k, value); q.enqueue(skey(key), value); break;
		}
	}
	bool copyProbe(int how) override {
		Q other;
		if(how) other = q;
		Q third(how ? other : q);
		for(int k = 0; k < kKeys; ++k) if(third.hasAnyListener(skey(k)) != q.hasAnyListener(skey(k))) return false;
		return true;
	}
	bool process() override { return q.process(); }
	bool processOne() override { return q.processOne(); }
	bool processIf(int k) override { return k == 0 ? q.processIf(Pr<const std::string &>()) : q.processIf(Pr<const std::string &, int>()); }
	void clear() override { q.clearEvents(); }
	bool emptyQ() override { return q.emptyQueue(); }
	bool hasAny(int key) override { return q.hasAnyListener(skey(key)); }
	void forEach(int key, int proto, std::vector<int> & out) override {
		auto find = [&](const Handle & h) {
			for(size_t i = handles.size(); i > 0; --i) {
				const Handle & x = handles[i - 1];
				if(x.index == h.index && ! x.homoHandle.expired() && ! h.homoHandle.expired() && ! x.homoHandle.owner_before(h.homoHandle) && ! h.homoHandle.owner_before(x.homoHandle)) return (int)(i - 1);
			}
			return -2;
		};
		if(proto == 0) q.forEach<void (std::string)>(skey(key), [&](const Handle & h, const std::function<void (std::string)> &) { out.push_back(find(h)); });
		else q.forEach<void (std::string, int)>(skey(key), [&](const Handle & h, const std::function<void (std::string, int)> &) { out.push_back(find(h)); });
	}
	size_t handleCount() const override { return handles.size(); }
};


// ---- configuration 3: a non-const reference prototype listed before the const reference one:
// L5 = <void(std::string &), void(const std::string &), void(int)>. A non-const lvalue argument selects the first, a const
// lvalue or a temporary the second; a callable taking const std::string & can be called with a std::string & and therefore
// binds to the first.
using L5 = eventpp::HeterTuple<void (std::string &), void (const std::string &), void (int)>;
struct OnlyConstRef : LedgeredT<2> // refuses a non-const lvalue: the only way to bind to the second prototype
{
	explicit OnlyConstRef(int cb) : LedgeredT<2>(kCbBase + cb) {}
	void operator() (const std::string & v) const { touch(); Summary s; descAll(s, v); deliver(id - kCbBase, s); }
	void operator() (std::string &) const = delete;
};
struct Cfg3 : HBase<eventpp::HeterEventQueue<int, L5> >
{
	int protoCount() const override { return 3; }
	int callableKinds() const override { return 4; }
	int argKinds() const override { return 4; }
	int predKinds() const override { return 2; }
	int protoOfCallable(int k) const override { static const int t[] = { 0, 0, 1, 2 }; return t[k]; }
	int protoOfArgs(int k) const override { static const int t[] = { 0, 1, 1, 2 }; return t[k]; }
	int protosOfPred(int k) const override { static const int t[] = { 1 | 2, 4 }; return t[k]; }
	void add(int key, int kind, int how, int b, int cb) override {
		switch(kind) {
		case 0: addF(key, how, b, Fn<std::string &>(cb)); break;
		case 1: addF(key, how, b, Fn<const std::string &>(cb)); break;   // callable with std::string & too: first match
		case 2: addF(key, how, b, OnlyConstRef(cb)); break;
		default: addF(key, how, b, Fn<int>(cb)); break;
		}
	}
	template <typename Call> void call(Call c, int argKind, int serial, int value, Summary & e) {
		switch(argKind) {
		case 0: { std::string s = strOf(serial, value); descAll(e, s); c(s); break; }                       // non-const lvalue
		case 1: { const std::string s = strOf(serial, value); descAll(e, s); c(s); break; }                 // const lvalue
		case 2: { descAll(e, strOf(serial, value)); c(strOf(serial, value)); break; }                       // temporary
		default: descAll(e, value); c(value); break;
		}
	}
	void dispatch(int key, int argKind, int serial, int value, Summary & e) override {
		call([&](auto && ...a) { q.dispatch(key, std::forward<decltype(a)>(a)...); }, argKind, serial, value, e);
	}
	void enqueue(int key, int argKind, int serial, int value, Summary & e) override {
		call([&](auto && ...a) { q.enqueue(key, std::forward<decltype(a)>(a)...); }, argKind, serial, value, e);
	}
	bool processIf(int k) override { return k == 0 ? q.processIf(Pr<const std::string &>()) : q.processIf(Pr<int>()); }
	void forEach(int key, int proto, std::vector<int> & out) override {
		switch(proto) {
		case 0: each<void (std::string &)>(key, out); break;
		case 1: break; // forEach<void(const std::string &)> is callable with std::string &: it names the first prototype (see canEnumerate)
		default: each<void (int)>(key, out); break;
		}
	}
	bool canEnumerate(int proto) const override { return proto != 1; }
	bool enqueueHitsKnownFinding(int argKind) const override { return argKind == 0; }
};

const int kConfigs = 4;
IHeter * makeImpl(int cfg)
{
	switch(cfg) {
	case 0: return new Cfg0();
	case 1: return new Cfg1();
	case 2: return new Cfg2();
	default: return new Cfg3();
	}
}

// ---------------------------------------------------------------- model

struct MEv { int serial, key, proto; Summary args; };
struct PFrame
{
	bool isIf = false;
	int predMask = 0;
	int predRule = 0;
	std::vector<MEv> batch;
	std::set<int> examined;
	std::set<int> approved, dispatched;
	int current = -1; // index in batch being dispatched
	InvokeFrame inv;
	size_t pos = 0;   // process/processOne: next index
	int predCalls = 0;
	bool direct = false;
};

struct Interp
{
	const Program & prog;
	std::string prop;
	Verdict & v;
	std::unique_ptr<IHeter> impl;
	ListModel lists[kKeys][kMaxProtos];
	std::vector<int> nodeKey, nodeProto;
	// re-entrancy: a listener may enqueue one event each time it runs (while fuel lasts); nodeEnq[cb] = -1 or argument kind | key << 8
	std::vector<int> nodeEnq;
	int enqFuel = 4;
	bool enqueuedDuringProcessIfWithLeftovers = false;
	std::deque<MEv> pending;
	std::vector<PFrame> frames;
	int nextSerial = 1;
	bool failed = false;
	std::ostringstream log;
	long consumed = 0;
	std::set<int> slotProtos;
	bool foreignPending = false, recycledAcross = false, firstMatch = false;
	FaultPlan * plan = nullptr;

	Interp(const Program & p, const std::string & pr, Verdict & v_) : prog(p), prop(pr), v(v_) {}
	bool knownTriggered = false; // an enqueue that runs into known finding E12 was performed (only when the driver asks for it)
	long knownSkipped = 0;
	void fail(const std::string & rule0, const std::string & pr, const std::string & msg0) {
		if(failed) return;
		failed = true;
		const std::string rule = knownTriggered ? "heter.queue.nonconstref" : rule0;
		const std::string msg = knownTriggered ? "an event enqueued for a non-const reference prototype was dispatched to another prototype's listeners at processing time (" + rule0 + ": " + msg0 + ")" : msg0;
		std::string s = log.str();
		if(s.size() > 600) s = "..." + s.substr(s.size() - 600);
		v.fail(rule, pr, msg + " | log: " + s);
	}
	static std::string show(const Summary & s) { std::string o = "["; for(long long x : s) o += " " + std::to_string(x); return o + " ]"; }

	void closeCurrent(PFrame & f) {
		if(f.current < 0) return;
		const MEv & e = f.batch[(size_t)f.current];
		int due = f.inv.due(lists[e.key][e.proto]);
		if(due >= 0) { fail("heter.dispatch.missed", "C14", "event #" + std::to_string(e.serial) + " (prototype " + std::to_string(e.proto) + ") dispatched without calling listener n" + std::to_string(due)); return; }
		f.dispatched.insert(f.current);
		++consumed;
		f.current = -1;
	}
	// a listener was called with `s`: find which batch event of the frame it belongs to
	void onCall(int cb, const Summary & s) {
		if(failed) return;
		if(frames.empty()) { fail("heter.call.spurious", "C14", "listener n" + std::to_string(cb) + " called outside any dispatch"); return; }
		PFrame & f = frames.back();
		for(int guard = 0; guard < 1000; ++guard) {
			if(f.current < 0) {
				// open the next event to be dispatched
				int next = -1;
				if(f.isIf) {
					for(int a : f.approved) if(! f.dispatched.count(a)) { next = a; break; }
				}
				else if(f.pos < f.batch.size()) next = (int)f.pos++;
				if(next < 0) { fail("heter.dispatch.unexpected", "C14", "listener n" + std::to_string(cb) + " called with " + show(s) + " but no event of this call is due for dispatch"); return; }
				f.current = next;
				const MEv & e = f.batch[(size_t)next];
				f.inv.begin(lists[e.key][e.proto]);
			}
			const MEv & e = f.batch[(size_t)f.current];
			int due = f.inv.due(lists[e.key][e.proto]);
			if(due == cb && s == e.args) { f.inv.advance(due); log << " >n" << cb; reenter(cb); return; }
			if(due < 0) { closeCurrent(f); if(failed) return; continue; } // that event had no (more) listeners: move on
			fail("heter.dispatch.listener", "C14", "event #" + std::to_string(e.serial) + " prototype " + std::to_string(e.proto) + " args " + show(e.args) + ": listener n" + std::to_string(cb) + " (bound to prototype " + std::to_string(nodeProto[cb]) + ", key " + std::to_string(nodeKey[cb]) + ") called with " + show(s) + ", due is n" + std::to_string(due));
			return;
		}
	}
	// the listener's own action: enqueue an event from inside the dispatch. It joins the queue behind everything that is
	// pending, including whatever the running processIf puts back (those events stay "in place", i.e. ahead of it)
	void reenter(int cb) {
		if((size_t)cb >= nodeEnq.size() || nodeEnq[(size_t)cb] < 0 || enqFuel <= 0 || plan) return;
		const int ak = nodeEnq[(size_t)cb] & 0xff, key = (nodeEnq[(size_t)cb] >> 8) & 1;
		if(impl->enqueueHitsKnownFinding(ak)) { ++knownSkipped; return; }
		--enqFuel;
		MEv e;
		e.serial = nextSerial++;
		e.key = key;
		e.proto = impl->protoOfArgs(ak);
		impl->enqueue(key, ak, e.serial, 1000 + cb, e.args);
		pending.push_back(e);
		log << "(re-enq #" << e.serial << " p" << e.proto << ")";
		if(! frames.empty() && frames.back().isIf) {
			const PFrame & f = frames.back();
			for(size_t i = 0; i < f.batch.size(); ++i) if(! (f.predMask & (1 << f.batch[i].proto)) || (f.examined.count((int)i) && ! f.approved.count((int)i))) enqueuedDuringProcessIfWithLeftovers = true;
		}
	}
	bool onPred(const Summary & s) {
		if(failed) return false;
		if(frames.empty() || ! frames.back().isIf) { fail("heter.pred.spurious", "C14", "predicate called outside processIf"); return false; }
		PFrame & f = frames.back();
		closeCurrent(f);
		if(failed) return false;
		// which event is being examined: the first not yet examined event with these argument values
		int idx = -1;
		for(size_t i = 0; i < f.batch.size(); ++i) if(! f.examined.count((int)i) && f.batch[i].args == s) { idx = (int)i; break; }
		if(idx < 0) { fail("heter.pred.unknown", "C14", "predicate called with " + show(s) + ", which is not an unexamined event of the queue (type confusion or double examination)"); return false; }
		const MEv & e = f.batch[(size_t)idx];
		if(! (f.predMask & (1 << e.proto))) { fail("heter.pred.foreign", "C14", "predicate examined event #" + std::to_string(e.serial) + " of prototype " + std::to_string(e.proto) + " which it is not callable with"); return false; }
		f.examined.insert(idx);
		++f.predCalls;
		bool r;
		switch(f.predRule % 4) {
		case 0: r = true; break;
		case 1: r = false; break;
		case 2: r = (e.serial & 1) != 0; break;
		default: r = (f.predCalls & 1) != 0; break;
		}
		log << " ?#" << e.serial << "=" << r;
		if(r) f.approved.insert(idx);
		return r;
	}

	void execOp(const Op & op) {
		log << ' ' << kindName(op.kind);
		const int key = op.a & 1;
		switch(op.kind) {
		case H_ADD: {
			int kind = (((op.b & 63) % impl->callableKinds()) + impl->callableKinds()) % impl->callableKinds();
			int proto = impl->protoOfCallable(kind);
			const int enq = (op.b >= 128 && op.b < 256) ? ((((op.c >> 4) % impl->argKinds()) + impl->argKinds()) % impl->argKinds()) | ((op.b >> 6) & 1) << 8 : -1;
			int how = ((op.c % 3) + 3) % 3;
			int before = nodeKey.empty() ? -1 : (op.c >> 2) % (int)nodeKey.size();
			int node = (int)nodeKey.size();
			nodeKey.push_back(key); nodeProto.push_back(proto); nodeEnq.push_back(enq);
			if(how == 0) lists[key][proto].append(node);
			else if(how == 1) lists[key][proto].prepend(node);
			else {
				// a handle of another prototype (or another event) is not in this prototype's list: append at the back
				if(before >= 0 && nodeKey[before] != key) { nodeKey.pop_back(); nodeProto.pop_back(); nodeEnq.pop_back(); log << "(skip-foreign-key)"; break; }
				lists[key][proto].insertBefore(node, before);
			}
			impl->add(key, kind, how, before, node);
			log << "(k" << key << " kind" << kind << "->p" << proto << ":n" << node << ")";
			break;
		}
		case H_REMOVE: {
			if(nodeKey.empty()) break;
			int h = ((op.b % (int)nodeKey.size()) + (int)nodeKey.size()) % (int)nodeKey.size();
			int k = nodeKey[h];
			bool expect = lists[k][nodeProto[h]].remove(h);
			bool r = impl->remove(k, h);
			if(r != expect) fail("heter.remove.result", "C14", "removeListener returned " + std::to_string(r) + ", model says " + std::to_string(expect));
			break;
		}
		case H_DISPATCH: case H_ENQ: {
			int ak = ((op.b % impl->argKinds()) + impl->argKinds()) % impl->argKinds();
			MEv e;
			e.serial = nextSerial++;
			e.key = key;
			e.proto = impl->protoOfArgs(ak);
			int value = (op.c < 0 ? -op.c : op.c) % 30000;
			if(ak != e.proto) firstMatch = true;
			if(op.kind == H_DISPATCH) {
				PFrame f; f.direct = true;
				Summary expect;
				// the expected arguments are produced by the configuration while it builds the call
				frames.push_back(f);
				pendingDirect = &e;
				impl->dispatch(key, ak, e.serial, value, e.args);
				pendingDirect = nullptr;
				PFrame & fr = frames.back();
				if(! failed) {
					if(fr.batch.empty()) { fr.batch.push_back(e); } // no listener ran: still check that none was due
					if(fr.current < 0 && fr.pos == 0) { fr.current = 0; fr.pos = 1; fr.inv.begin(lists[e.key][e.proto]); }
					closeCurrent(fr);
					--consumed;
				}
				frames.pop_back();
			}
			else {
				if(impl->enqueueHitsKnownFinding(ak)) {
					static const bool reportKnown = getenv("VERIF_REPORT_KNOWN") != nullptr;
					if(! reportKnown) { ++knownSkipped; --nextSerial; log << "(skipped: known finding E12)"; break; }
					knownTriggered = true;
				}
				if(consumed > 0 && ! slotProtos.empty() && ! slotProtos.count(e.proto)) recycledAcross = true;
				if(plan) { struct Un { Un() { --faults().paused; } ~Un() { ++faults().paused; } } un; impl->enqueue(key, ak, e.serial, value, e.args); }
				else impl->enqueue(key, ak, e.serial, value, e.args);
				pending.push_back(e);
				log << "(#" << e.serial << " p" << e.proto << ")";
			}
			break;
		}
		case H_PROCESS: case H_PROCESSONE: case H_PROCESSIF: {
			PFrame f;
			int pk = 0;
			if(op.kind == H_PROCESSONE) { if(! pending.empty()) { f.batch.push_back(pending.front()); pending.pop_front(); } }
			else { f.batch.assign(pending.begin(), pending.end()); pending.clear(); }
			if(op.kind == H_PROCESSIF) {
				pk = ((op.b % impl->predKinds()) + impl->predKinds()) % impl->predKinds();
				f.isIf = true;
				f.predMask = impl->protosOfPred(pk);
				f.predRule = op.c;
				for(const MEv & e : f.batch) if(! (f.predMask & (1 << e.proto))) foreignPending = true;
			}
			for(const MEv & e : f.batch) slotProtos.insert(e.proto);
			frames.push_back(f);
			log << "{";
			bool r;
			if(plan) { struct Un { Un() { --faults().paused; } ~Un() { ++faults().paused; } } un; r = op.kind == H_PROCESS ? impl->process() : op.kind == H_PROCESSONE ? impl->processOne() : impl->processIf(pk); }
			else r = op.kind == H_PROCESS ? impl->process() : op.kind == H_PROCESSONE ? impl->processOne() : impl->processIf(pk);
			log << "}=" << r;
			if(! failed) {
				PFrame & fr = frames.back();
				closeCurrent(fr);
				if(! failed && ! fr.isIf) {
					// events with no listeners are consumed silently
					while(! failed && fr.pos < fr.batch.size()) {
						fr.current = (int)fr.pos++;
						const MEv & e = fr.batch[(size_t)fr.current];
						fr.inv.begin(lists[e.key][e.proto]);
						closeCurrent(fr);
					}
					if(! failed && r != ! fr.batch.empty()) fail("heter.process.result", "C14", std::string(kindName(op.kind)) + " returned " + std::to_string(r) + " with " + std::to_string(fr.batch.size()) + " event(s) taken");
				}
				if(! failed && fr.isIf) {
					// approved events are dispatched (those without listeners silently); everything else stays, in place
					for(int a : fr.approved) {
						if(fr.dispatched.count(a)) continue;
						fr.current = a;
						const MEv & e = fr.batch[(size_t)a];
						fr.inv.begin(lists[e.key][e.proto]);
						closeCurrent(fr);
						if(failed) break;
					}
					if(! failed) {
						std::deque<MEv> rest;
						for(size_t i = 0; i < fr.batch.size(); ++i) if(! fr.approved.count((int)i)) rest.push_back(fr.batch[i]);
						for(const MEv & e : pending) rest.push_back(e);
						pending = rest;
						if(r != ! fr.approved.empty()) fail("heter.processIf.result", "C14", "processIf returned " + std::to_string(r) + " but dispatched " + std::to_string(fr.approved.size()) + " event(s)");
					}
				}
			}
			frames.pop_back();
			break;
		}
		case H_CLEAR: {
			consumed += (long)pending.size();
			pending.clear();
			impl->clear();
			break;
		}
		case H_EMPTYQ: {
			bool r = impl->emptyQ();
			if(r != pending.empty()) fail("heter.empty", "C14", "emptyQueue() returned " + std::to_string(r) + " with " + std::to_string(pending.size()) + " pending");
			break;
		}
		case H_FOREACH: {
			int proto = ((op.b % impl->protoCount()) + impl->protoCount()) % impl->protoCount();
			if(! impl->canEnumerate(proto)) break;
			std::vector<int> got;
			impl->forEach(key, proto, got);
			if(got != lists[key][proto].nodes) fail("heter.forEach", "C14", "forEach of prototype " + std::to_string(proto) + " for key " + std::to_string(key) + " differs from the model");
			break;
		}
		case H_COPY: {
			bool same;
			{ struct Un { Un() { --faults().paused; } ~Un() { ++faults().paused; } } un; same = impl->copyProbe(op.b & 1); }
			if(! same) fail("heter.copy", "C10,C14", "a copy of the queue does not hold the same listeners");
			break;
		}
		case H_HASANY: {
			bool any = false;
			for(int p = 0; p < impl->protoCount(); ++p) if(! lists[key][p].empty()) any = true;
			bool r = impl->hasAny(key);
			if(r != any) fail("heter.hasAny", "C14", "hasAnyListener returned " + std::to_string(r));
			break;
		}
		default: break;
		}
		if(! failed && ledger().isFlagged()) fail("ledger.flag", "C08,C14", ledger().message());
	}
	const MEv * pendingDirect = nullptr;

	// C09: a failed copy of a container leaves its source untouched (and the exception reaches the caller: a copy routed
	// through a noexcept function ends in std::terminate, which the runtime reports as a crash)
	void execCopyWithFaults(const Op & op, int index) {
		int caught = 0;
		{
			FaultArm arm(plan, index);
			try { execOp(op); }
			catch(const Injected &) { caught = 1; }
			catch(const std::bad_alloc &) { caught = 2; }
			catch(...) { fail("fault.foreign", "C09", "an exception of a different type than the injected one reached the caller"); }
		}
		if(g_failedAssignChangedDestination) { g_failedAssignChangedDestination = false; fail("fault.assign.destination", "C09", "a failed copy assignment of a HeterCallbackList left the destination changed (some prototypes already hold the source's callbacks)"); return; }
		if(! caught) return;
		++plan->fired;
		plan->firedKind = faults().lastKind;
		auto it = plan->at.find(index);
		if(it != plan->at.end() && it->second > 1 && ! nodeKey.empty()) plan->firedAtKGreater1OnNonEmpty = true;
		log << "[fault]";
		for(int k = 0; k < kKeys && ! failed; ++k) for(int p = 0; p < impl->protoCount() && ! failed; ++p) {
			if(! impl->canEnumerate(p)) continue;
			std::vector<int> got;
			impl->forEach(k, p, got);
			if(got != lists[k][p].nodes) fail("fault.copy.source", "C09", "a failed copy changed its source");
		}
	}

	// C09: a failed enqueue leaves the queue exactly as it was (the model simply does not record the event); what the ledger
	// sees - a payload destroyed that was never constructed, or destroyed twice - is checked after every operation
	void execEnqueueWithFaults(const Op & op, int index) {
		int caught = 0;
		{
			FaultArm arm(plan, index);
			try { execOp(op); }
			catch(const Injected &) { caught = 1; }
			catch(const std::bad_alloc &) { caught = 2; }
			catch(...) { fail("fault.foreign", "C09", "an exception of a different type than the injected one reached the caller"); }
		}
		if(! caught) return;
		++plan->fired;
		plan->firedKind = faults().lastKind;
		auto it = plan->at.find(index);
		if(it != plan->at.end() && it->second > 1 && ! pending.empty()) plan->firedAtKGreater1OnNonEmpty = true;
		log << "[fault]";
		if(! failed && ledger().isFlagged()) fail("ledger.flag", "C08,C09", ledger().message());
		if(! failed && impl->emptyQ() != pending.empty()) fail("fault.enqueue.state", "C09", "after a failed enqueue emptyQueue() disagrees with the model");
	}

	// C09 / C08: an exception escaping a processing call discards only the events that call had already taken out of the queue
	// (the model's batch), destroys them (the ledger and LeakSanitizer see it if not) and leaves emptiness reporting right
	void execProcessWithFaults(const Op & op, int index) {
		const size_t depth = frames.size();
		int caught = 0;
		{
			FaultArm arm(plan, index);
			try { execOp(op); }
			catch(const Injected &) { caught = 1; }
			catch(const std::bad_alloc &) { caught = 2; }
			catch(...) { fail("fault.foreign", "C09", "an exception of a different type than the injected one reached the caller"); }
		}
		if(! caught) return;
		++plan->fired;
		plan->firedKind = faults().lastKind;
		if(frames.size() > depth) { consumed += (long)frames[depth].batch.size(); frames.resize(depth); }
		auto it = plan->at.find(index);
		if(it != plan->at.end() && it->second > 1) plan->firedAtKGreater1OnNonEmpty = true;
		log << "[fault]}";
		if(! failed && ledger().isFlagged()) fail("ledger.flag", "C08,C09", ledger().message());
		if(! failed && impl->emptyQ() != pending.empty()) fail("fault.process.state", "C09", "after an exception escaped a processing call emptyQueue() disagrees with the model");
	}

	// direct dispatch: the frame learns its single event when the first listener is called
	void onCallDirectFix() {
		if(! frames.empty() && frames.back().direct && frames.back().batch.empty() && pendingDirect) {
			frames.back().batch.push_back(*pendingDirect);
		}
	}

	void run() {
		const int cfg = prog.params.empty() ? 0 : ((prog.params[0] % kConfigs) + kConfigs) % kConfigs;
		impl.reset(makeImpl(cfg));
		FaultPause harnessCode;
		int index = 0;
		for(const Op & op : prog.ops) {
			if(failed) break;
			if(plan && op.kind == H_COPY) execCopyWithFaults(op, index);
			else if(plan && op.kind == H_ENQ) execEnqueueWithFaults(op, index);
			else if(plan && (op.kind == H_PROCESS || op.kind == H_PROCESSONE || op.kind == H_PROCESSIF)) execProcessWithFaults(op, index);
			else execOp(op);
			++index;
		}
		if(! failed) {
			// final drain
			Op d; d.kind = H_PROCESS;
			for(int guard = 0; guard < 10 && ! failed && ! pending.empty(); ++guard) execOp(d);
			if(! failed && ! impl->emptyQ()) fail("heter.empty.final", "C14", "queue not empty after the final drain");
			for(int k = 0; k < kKeys && ! failed; ++k) for(int p = 0; p < impl->protoCount() && ! failed; ++p) {
				if(! impl->canEnumerate(p)) continue;
				std::vector<int> got;
				impl->forEach(k, p, got);
				if(got != lists[k][p].nodes) fail("heter.forEach.final", "C14", "final enumeration of prototype " + std::to_string(p) + " key " + std::to_string(k) + " differs from the model");
			}
		}
		frames.clear();
		impl.reset();
		if(! failed) {
			if(ledger().isFlagged()) fail("ledger.flag", "C08,C14", ledger().message());
			else if(ledger().totalLive() != 0) fail("ledger.leak", "C08,C14", std::to_string(ledger().totalLive()) + " tracked object(s) alive after the queue was destroyed");
		}
	}
};

// a listener / predicate may throw on entry (fault-injection builds): what it does afterwards runs with the injector paused
void deliver(int cb, const Summary & s) { faults().point(1); FaultPause fp, fp2; if(g_h) { g_h->onCallDirectFix(); g_h->onCall(cb, s); } }
bool deliverPred(const Summary & s) { faults().point(5); FaultPause fp, fp2; return g_h ? g_h->onPred(s) : false; }

Grammar makeGrammar(const std::string &)
{
	Grammar g;
	g.params = { ArgSpec(0, kConfigs - 1) };
	g.maxDepth = 1;
	g.maxTotalOps = 120;
	Level top;
	top.minOps = 1;
	top.maxOps = 70;
	const ArgSpec key(0, 1), kind(0, 11), val(0, 29999);
	top.kinds = {
		{ H_ADD, "addListener", 16, key, ArgSpec(0, 255), ArgSpec(0, 200), -1, 0 }, // b: callable kind (low 6 bits), >= 128: the listener enqueues when it runs
		{ H_REMOVE, "removeListener", 4, key, ArgSpec(0, 60), ArgSpec(0, 0), -1, 0 },
		{ H_DISPATCH, "dispatch", 8, key, kind, val, -1, 0 },
		{ H_ENQ, "enqueue", 30, key, kind, val, -1, 0 },
		{ H_PROCESS, "process", 5, key, ArgSpec(0, 0), ArgSpec(0, 0), -1, 0 },
		{ H_PROCESSONE, "processOne", 8, key, ArgSpec(0, 0), ArgSpec(0, 0), -1, 0 },
		{ H_PROCESSIF, "processIf", 12, key, kind, ArgSpec(0, 3), -1, 0 },
		{ H_CLEAR, "clearEvents", 1, key, ArgSpec(0, 0), ArgSpec(0, 0), -1, 0 },
		{ H_EMPTYQ, "emptyQueue", 2, key, ArgSpec(0, 0), ArgSpec(0, 0), -1, 0 },
		{ H_FOREACH, "forEach", 2, key, kind, ArgSpec(0, 0), -1, 0 },
		{ H_HASANY, "hasAnyListener", 1, key, ArgSpec(0, 0), ArgSpec(0, 0), -1, 0 },
		{ H_COPY, "copy", 3, key, ArgSpec(0, 1), ArgSpec(0, 0), -1, 0 },
	};
	g.levels.push_back(top);
	return g;
}
const Grammar & grammar(const std::string & prop)
{
	static std::map<std::string, Grammar> cache;
	auto it = cache.find(prop);
	if(it == cache.end()) it = cache.insert(std::make_pair(prop, makeGrammar(prop))).first;
	return it->second;
}

long g_caseCounter = 0;
Verdict runOnce(const Program & p, const std::string & prop, FaultPlan * plan)
{
	Verdict v;
	v.trace.reserve(4096);
	v.classes.reserve(16);
	ledger().reset();
	faults().reset();
	LeakScope scope;
	{
		Interp in(p, prop, v);
		in.plan = plan;
		g_h = &in;
		in.run();
		g_h = nullptr;
		auto cls = [&](bool b, const char * n) { if(b) v.classes.push_back(n); };
		cls(in.foreignPending, "processIf_with_foreign_prototype_pending");
		cls(in.recycledAcross, "slot_recycled_across_prototypes");
		cls(in.firstMatch, "argument_kind_selecting_by_conversion_or_first_match");
		cls(in.enqueuedDuringProcessIfWithLeftovers, "listener_enqueued_during_processIf_that_left_events");
		cls(in.knownSkipped > 0, "known_finding_enqueue_for_nonconst_reference_prototype_skipped");
		v.nontrivial = in.foreignPending && in.recycledAcross;
		const std::string full = in.log.str();
		v.trace.assign(full, 0, std::min<size_t>(full.size(), 4000));
	}
	ledger().reset();
	if(v.ok && (scope.grew() || (++g_caseCounter & 1023) == 0)) {
		v.classes.push_back("lsan_confirmation_run");
		if(confirmLeak()) v.fail("lsan.leak", "C08,C14", "LeakSanitizer: memory allocated during the case is unreachable afterwards", "lsan.leak");
	}
	if(! v.ok && plan && ! plan->counting && v.prop.find("C09") == std::string::npos) v.prop += ",C09";
	return v;
}
Verdict run(const Program & p, const std::string & prop)
{
	if(prop != "C09") return runOnce(p, prop, nullptr);
	return faultOrchestrate(p, [&](const Program & q2, FaultPlan & plan, Verdict & out) { out = runOnce(q2, "C14", &plan); });
}
} // namespace

namespace vf {
const Harness g_harness = { "heter", &grammar, &run, &kindName, nullptr };
}
