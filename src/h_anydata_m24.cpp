// AnyData<24>: instantiates the whole size x kind table for this capacity.
#include "h_anydata_impl.h"

namespace vfad {
#define VF_ROW(N) { &runCase<N, 0, 24>, &runCase<N, 1, 24>, &runCase<N, 2, 24>, &runCase<N, 3, 24>, &runCase<N, 4, 24>, &runCase<N, 5, 24> },
CaseFn caseTable24(int sizeIndex, int kind)
{
	static const CaseFn table[kNumSizes][6] = { VF_SIZES(VF_ROW) };
	return table[sizeIndex][kind];
}
} // namespace vfad
