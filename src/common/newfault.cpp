// Replacement global operator new: an allocation is a fault point while the injector enables allocation faults.
// Linked only into the fault-enumeration harness variants.
#include "ledger.h"

#include <cstdlib>
#include <new>

void * operator new(std::size_t n)
{
	vf::Faults & f = vf::faults();
	if(f.allocEnabled && f.tick(6)) throw std::bad_alloc();
	void * p = malloc(n ? n : 1);
	if(! p) throw std::bad_alloc();
	return p;
}
void * operator new[](std::size_t n) { return operator new(n); }
void operator delete(void * p) noexcept { free(p); }
void operator delete[](void * p) noexcept { free(p); }
void operator delete(void * p, std::size_t) noexcept { free(p); }
void operator delete[](void * p, std::size_t) noexcept { free(p); }
