// Harness `disp`: EventDispatcher over a table of key types x prototypes x ArgumentPassing x Map (C04),
// listener scripts acting on this and other events' lists (dispatcher half of C02), ledger (C08).
#include <eventpp/eventdispatcher.h>
#include <eventpp/utilities/eventutil.h>

#include "common/harness.h"
#include "common/ledger.h"
#include "common/checked.h"
#include "common/models.h"
#include "common/leak.h"

#include <map>
#include <memory>
#include <sstream>
#include <unordered_map>

namespace {
using namespace vf;

enum Kind { D_APPEND = 1, D_PREPEND, D_INSERT, D_REMOVE, D_OWNS, D_HASANY, D_FOREACH, D_FOREACHIF, D_DISPATCH, D_UTIL_HAS, D_UTIL_REMOVE, D_UTIL_HASANY, D_MAX };
const char * kindName(int k)
{
	static const char * names[] = { "?", "appendListener", "prependListener", "insertListener", "removeListener", "ownsHandle", "hasAnyListener", "forEach", "forEachIf", "dispatch", "util.hasListener", "util.removeListener", "util.hasAnyListener" };
	return (k > 0 && k < D_MAX) ? names[k] : "?";
}

const int kKeys = 5;
const int kMaxDepth = 4;
const int kFuel = 250;

using Summary = std::vector<long long>;

// ---- key types

enum class Color { red = -1, green = 0, blue = 1, alpha = 1 << 30, beta = -(1 << 30) };

struct KeyOrd : LedgeredT<4>
{
	explicit KeyOrd(int v_ = 0) : LedgeredT<4>(kKeyBase + 100 + v_), v(v_) {}
	int v;
	friend bool operator < (const KeyOrd & a, const KeyOrd & b) { a.touch(); b.touch(); faults().point(4); return a.v < b.v; }
};
struct KeyHash : LedgeredT<4>
{
	explicit KeyHash(int v_ = 0) : LedgeredT<4>(kKeyBase + 200 + v_), v(v_) {}
	int v;
	friend bool operator == (const KeyHash & a, const KeyHash & b) { a.touch(); b.touch(); faults().point(4); return a.v == b.v; }
};
} // namespace
namespace std {
template <> struct hash< ::KeyHash> { size_t operator() (const ::KeyHash & k) const { k.touch(); return (size_t)(k.v & 1); } }; // many collisions
}
namespace {

struct Ev
{
	int key;
	Tracked payload;
};

template <typename K> struct KeyPool;
template <> struct KeyPool<int> { static int make(int i) { static const int v[kKeys] = { 0, -1, 1, 2147483647, -2147483647 - 1 }; return v[i]; } };
template <> struct KeyPool<Color> { static Color make(int i) { static const Color v[kKeys] = { Color::red, Color::green, Color::blue, Color::alpha, Color::beta }; return v[i]; } };
template <> struct KeyPool<std::string> {
	static std::string make(int i) {
		switch(i) {
		case 0: return std::string();
		case 1: return "a";
		case 2: return std::string("a\0b", 3);
		case 3: return "a long key that does not fit the small string buffer, variant 1";
		default: return "a long key that does not fit the small string buffer, variant 2";
		}
	}
};
template <> struct KeyPool<KeyOrd> { static KeyOrd make(int i) { return KeyOrd(i); } };
template <> struct KeyPool<KeyHash> { static KeyHash make(int i) { return KeyHash(i); } };

inline void desc(Summary & s, int v) { s.push_back(v); }
inline void desc(Summary & s, Color c) { s.push_back((long long)c); }
inline void desc(Summary & s, const std::string & v) { s.push_back((long long)(fnv1a(v) & 0x7fffffffffffll)); s.push_back((long long)v.size()); }
inline void desc(Summary & s, const Tracked & t) { s.push_back(t.serial()); s.push_back(t.value); s.push_back(t.intact() ? 1 : 0); }
inline void desc(Summary & s, const KeyOrd & k) { k.touch(); s.push_back(k.v); s.push_back(k.isMoved() ? 0 : 1); }
inline void desc(Summary & s, const KeyHash & k) { k.touch(); s.push_back(k.v); s.push_back(k.isMoved() ? 0 : 1); }
inline void desc(Summary & s, const Ev & e) { s.push_back(e.key); desc(s, e.payload); }
inline void descAll(Summary &) {}
template <typename A, typename ...R> void descAll(Summary & s, const A & a, const R & ...r) { desc(s, a); descAll(s, r...); }

struct Interp;
Interp * g_d = nullptr;
void deliver(int cb, const Summary & s);

// What every listener of the dispatch in progress must receive. It is built by the configuration's dispatch()
// (it depends on the argument types) before the library is entered, and published here for that dispatch.
const Summary * g_expect = nullptr;
// the listener objects keep a count of their own calls: it shows whether the object that ran is the registered one
// (its state survives from call to call) or a copy made for the occasion
int g_ownCalls = 0;
struct ExpectScope
{
	const Summary * saved;
	explicit ExpectScope(const Summary * e) : saved(g_expect) { g_expect = e; }
	~ExpectScope() { g_expect = saved; }
};

// listener taking everything by value (and keeping it): would expose a dispatcher that forwards instead of copying
struct LVal : LedgeredT<2>
{
	explicit LVal(int cb) : LedgeredT<2>(kCbBase + cb) {}
	mutable int ownCalls = 0;
	template <typename ...A> void operator() (A ...a) const {
		touch();
		Summary s;
		descAll(s, a...);
		g_ownCalls = ++ownCalls;
		deliver(id - kCbBase, s);
		steal(std::move(a)...);
	}
	template <typename ...A> static void steal(A && ...a) { std::tuple<typename std::decay<A>::type...> sink(std::forward<A>(a)...); (void)sink; }
};
struct LRef : LedgeredT<2>
{
	explicit LRef(int cb) : LedgeredT<2>(kCbBase + cb) {}
	mutable int ownCalls = 0;
	template <typename ...A> void operator() (const A & ...a) const {
		touch();
		Summary s;
		descAll(s, a...);
		g_ownCalls = ++ownCalls;
		deliver(id - kCbBase, s);
	}
};

// a user Callback type that can be compared (the helpers of utilities/eventutil.h need that): two callbacks are equal when
// their class (id % 3) is equal, so one event can hold several equal callbacks
struct CmpCb : LedgeredT<2>
{
	explicit CmpCb(int cb) : LedgeredT<2>(kCbBase + cb) {}
	mutable int ownCalls = 0;
	int cls() const { return (id - kCbBase) % 3; }
	template <typename ...A> void operator() (const A & ...a) const {
		touch();
		Summary s;
		descAll(s, a...);
		g_ownCalls = ++ownCalls;
		deliver(id - kCbBase, s);
	}
	friend bool operator == (const CmpCb & a, const CmpCb & b) { return a.cls() == b.cls(); }
};

// ---- implementation back end

struct IDisp
{
	virtual ~IDisp() {}
	virtual void append(int key, int cb, int style) = 0;
	virtual void prepend(int key, int cb, int style) = 0;
	virtual void insert(int key, int cb, int style, int h) = 0;
	virtual bool remove(int key, int h) = 0;
	virtual bool owns(int key, int h) = 0;
	virtual bool hasAny(int key) = 0;
	virtual void forEach(int key, std::vector<int> & handles) = 0;
	virtual bool forEachIf(int key, int stop, std::vector<int> & handles) = 0;
	// performs the dispatch; fills `expect` with what every listener must receive; returns false if a caller lvalue changed
	virtual bool dispatch(int key, int serial, int value, int how, Summary & expect) = 0;
	// which event's listeners a dispatch called with `key` reaches (a getEvent policy may compute another event)
	virtual int routeOf(int key) const { return key; }
	// the free helpers hasListener / removeListener / hasAnyListener(dispatcher, event[, callback]) of eventutil.h; only for
	// the configuration whose Callback type is comparable. `cls` names a callback class (see CmpCb)
	virtual bool hasUtil() const { return false; }
	virtual bool utilHas(int, int) { return false; }
	virtual bool utilRemove(int, int) { return false; }
	virtual bool utilHasAny(int) { return false; }
	virtual size_t handleCount() const = 0;
};

struct PolAuto {};
struct PolInclude { using ArgumentPassingMode = eventpp::ArgumentPassingIncludeEvent; };
struct PolExclude { using ArgumentPassingMode = eventpp::ArgumentPassingExcludeEvent; };
struct PolStdMap { template <typename K, typename V> using Map = std::map<K, V>; using ArgumentPassingMode = eventpp::ArgumentPassingIncludeEvent; };
template <typename K, typename V> struct UserMap : std::map<K, V> {};
struct PolUserMapGetEvent
{
	template <typename K, typename V> using Map = UserMap<K, V>;
	static int getEvent(const Ev & e) { return e.key; }
	using Threading = eventpp::SingleThreading;
};
// user getEvent policies whose parameters are *by value*: the dispatcher must hand them its arguments as lvalues (copies
// for the policy), never forwarded, or the listeners afterwards receive moved-from values
template <typename K> struct PolExcludeGetEventByValue
{
	using ArgumentPassingMode = eventpp::ArgumentPassingExcludeEvent;
	static K getEvent(const K & k, Tracked t, int) { (void)t; return k; }
};
template <typename K> struct PolIncludeGetEventByValue
{
	using ArgumentPassingMode = eventpp::ArgumentPassingIncludeEvent;
	static K getEvent(K k, Tracked t) { (void)t; return k; }
};
// a getEvent policy for the exclude-event form whose result is NOT its first argument: dispatch(k, ...) goes to the
// listeners of the next key of the pool. The policy must be found although it takes the event in front of the prototype's arguments.
struct PolExcludeShift
{
	using ArgumentPassingMode = eventpp::ArgumentPassingExcludeEvent;
	static int getEvent(const int & k, const Tracked & t, int) {
		// the policy reads the payload: it must be shown the caller's arguments, not moved-from ones (then it does not shift)
		if(t.isMoved()) return k;
		for(int i = 0; i < kKeys; ++i) if(KeyPool<int>::make(i) == k) return KeyPool<int>::make((i + 1) % kKeys);
		return k;
	}
};
struct PolCmpCallback { using Callback = CmpCb; using ArgumentPassingMode = eventpp::ArgumentPassingIncludeEvent; };
struct PolChecked { using Threading = CheckedThreading; };
struct PolSpin { using Threading = eventpp::GeneralThreading<eventpp::SpinLock>; };

template <typename Derived, typename K, typename Sig, typename Policies>
struct DispBase : IDisp
{
	using Disp = eventpp::EventDispatcher<K, Sig, Policies>;
	using Handle = typename Disp::Handle;
	Disp d;
	std::vector<Handle> handles;
	Handle H(int h) const { return h >= 0 && (size_t)h < handles.size() ? handles[h] : Handle(); }
	static K key(int i) { return KeyPool<K>::make(i); }

	typedef std::is_same<typename Disp::Callback, CmpCb> IsCmp;
	void doAdd(int how, int k, int cb, int style, int h, std::false_type) {
		if(how == 0) handles.push_back(style & 1 ? d.appendListener(key(k), LVal(cb)) : d.appendListener(key(k), LRef(cb)));
		else if(how == 1) handles.push_back(style & 1 ? d.prependListener(key(k), LVal(cb)) : d.prependListener(key(k), LRef(cb)));
		else handles.push_back(style & 1 ? d.insertListener(key(k), LVal(cb), H(h)) : d.insertListener(key(k), LRef(cb), H(h)));
	}
	void doAdd(int how, int k, int cb, int, int h, std::true_type) {
		if(how == 0) handles.push_back(d.appendListener(key(k), CmpCb(cb)));
		else if(how == 1) handles.push_back(d.prependListener(key(k), CmpCb(cb)));
		else handles.push_back(d.insertListener(key(k), CmpCb(cb), H(h)));
	}
	void append(int k, int cb, int style) override { doAdd(0, k, cb, style, -1, IsCmp()); }
	void prepend(int k, int cb, int style) override { doAdd(1, k, cb, style, -1, IsCmp()); }
	void insert(int k, int cb, int style, int h) override { doAdd(2, k, cb, style, h, IsCmp()); }
	bool hasUtil() const override { return IsCmp::value; }
	bool doUtil(int what, int k, int cls, std::true_type) {
		return what == 0 ? eventpp::hasListener(d, key(k), CmpCb(cls)) : what == 1 ? eventpp::removeListener(d, key(k), CmpCb(cls)) : eventpp::hasAnyListener(d, key(k));
	}
	bool doUtil(int, int, int, std::false_type) { return false; }
	bool utilHas(int k, int cls) override { return doUtil(0, k, cls, IsCmp()); }
	bool utilRemove(int k, int cls) override { return doUtil(1, k, cls, IsCmp()); }
	bool utilHasAny(int k) override { return doUtil(2, k, 0, IsCmp()); }
	bool remove(int k, int h) override { return d.removeListener(key(k), H(h)); }
	bool owns(int k, int h) override { return d.ownsHandle(key(k), H(h)); }
	bool hasAny(int k) override { return d.hasAnyListener(key(k)); }
	int findHandle(const Handle & h) const {
		if(h.expired()) return -1;
		for(size_t i = handles.size(); i > 0; --i) {
			const Handle & x = handles[i - 1];
			if(! x.owner_before(h) && ! h.owner_before(x) && ! x.expired()) return (int)(i - 1);
		}
		return -2;
	}
	void forEach(int k, std::vector<int> & out) override {
		d.forEach(key(k), [&](const Handle & h, const typename Disp::Callback &) { out.push_back(findHandle(h)); });
	}
	bool forEachIf(int k, int stop, std::vector<int> & out) override {
		return d.forEachIf(key(k), [&](const Handle & h, const typename Disp::Callback &) -> bool { out.push_back(findHandle(h)); return (int)out.size() <= stop; });
	}
	size_t handleCount() const override { return handles.size(); }
};

// A: void(K, Tracked), event included
template <typename K, typename Policies>
struct CfgA : DispBase<CfgA<K, Policies>, K, void (K, Tracked), Policies>
{
	bool dispatch(int k, int serial, int value, int how, Summary & expect) override {
		K kv = this->key(k);
		Tracked t(serial, value);
		descAll(expect, kv, t);
		const Summary before = expect;
		ExpectScope es(&expect);
		switch(how & 3) {
		case 0: this->d.dispatch(kv, t); break;
		case 1: this->d.dispatch(this->key(k), t); break;
		case 2: this->d.dispatch(kv, Tracked(serial, value)); break;
		default: this->d.dispatch(this->key(k), Tracked(serial, value)); break;
		}
		Summary after;
		descAll(after, kv, t);
		return after == before;
	}
};
// B: void(const K &, const Tracked &), event included
template <typename K, typename Policies>
struct CfgB : DispBase<CfgB<K, Policies>, K, void (const K &, const Tracked &), Policies>
{
	bool dispatch(int k, int serial, int value, int how, Summary & expect) override {
		const K kv = this->key(k);
		Tracked t(serial, value);
		descAll(expect, kv, t);
		const Summary before = expect;
		ExpectScope es(&expect);
		switch(how & 3) {
		case 0: this->d.dispatch(kv, t); break;
		case 1: this->d.dispatch(this->key(k), t); break;
		case 2: this->d.dispatch(kv, Tracked(serial, value)); break;
		default: this->d.dispatch(this->key(k), Tracked(serial, value)); break;
		}
		Summary after;
		descAll(after, kv, t);
		return after == before;
	}
};
// C: void(Tracked, int), event passed separately
template <typename K, typename Policies>
struct CfgC : DispBase<CfgC<K, Policies>, K, void (Tracked, int), Policies>
{
	bool dispatch(int k, int serial, int value, int how, Summary & expect) override {
		K kv = this->key(k);
		Tracked t(serial, value);
		int n = value ^ 0x55;
		descAll(expect, t, n);
		Summary before;
		descAll(before, kv, t, n);
		ExpectScope es(&expect);
		switch(how & 3) {
		case 0: this->d.dispatch(kv, t, n); break;
		case 1: this->d.dispatch(this->key(k), t, n); break;
		case 2: this->d.dispatch(kv, Tracked(serial, value), value ^ 0x55); break;
		default: this->d.dispatch(this->key(k), Tracked(serial, value), n); break;
		}
		Summary after;
		descAll(after, kv, t, n);
		return after == before;
	}
};
// D: void(const Ev &), key through the getEvent policy
template <typename Policies>
struct CfgD : DispBase<CfgD<Policies>, int, void (const Ev &), Policies>
{
	bool dispatch(int k, int serial, int value, int how, Summary & expect) override {
		Ev e { KeyPool<int>::make(k), Tracked(serial, value) };
		descAll(expect, e);
		const Summary before = expect;
		ExpectScope es(&expect);
		if(how & 1) this->d.dispatch(Ev { KeyPool<int>::make(k), Tracked(serial, value) });
		else this->d.dispatch(e);
		Summary after;
		descAll(after, e);
		return after == before;
	}
};

struct CfgCShift : CfgC<int, PolExcludeShift>
{
	int routeOf(int key) const override { return (key + 1) % kKeys; }
};

const int kConfigs = 14;
IDisp * makeImpl(int cfg)
{
	switch(cfg) {
	case 0: return new CfgA<int, PolAuto>();
	case 1: return new CfgA<std::string, PolAuto>();
	case 2: return new CfgB<std::string, PolStdMap>();
	case 3: return new CfgC<Color, PolExclude>();
	case 4: return new CfgA<KeyOrd, PolChecked>();
	case 5: return new CfgB<KeyHash, PolAuto>();
	case 6: return new CfgD<PolUserMapGetEvent>();
	case 7: return new CfgC<std::string, PolAuto>();
	case 8: return new CfgA<KeyHash, PolInclude>();
	case 9: return new CfgC<std::string, PolExcludeGetEventByValue<std::string> >();
	case 10: return new CfgA<std::string, PolIncludeGetEventByValue<std::string> >();
	case 11: return new CfgCShift();
	case 12: return new CfgB<int, PolCmpCallback>();
	default: return new CfgB<int, PolSpin>();
	}
}

// ---- model + interpreter

struct DFrame
{
	int key;
	InvokeFrame inv;
	Summary expect;
};

struct Interp
{
	const Program & prog;
	std::string prop;
	Verdict & v;
	std::unique_ptr<IDisp> impl;
	ListModel lists[kKeys];
	std::vector<int> nodeCb, nodeKey, nodeStyle;
	std::vector<const std::vector<Op> *> cbBody;
	std::vector<DFrame> frames;
	int fuel = kFuel;
	int nextSerial = 1;
	int lastRemoved = -1;
	bool failed = false;
	std::ostringstream log;

	bool tempKeyDispatch = false, twoKeys = false, firstByValue = false, mutatedDuring = false, observedAfter = false, otherKeyOp = false;

	Interp(const Program & p, const std::string & pr, Verdict & v_) : prog(p), prop(pr), v(v_) {}
	void fail(const std::string & rule, const std::string & pr, const std::string & msg) {
		if(failed) return;
		failed = true;
		std::string s = log.str();
		if(s.size() > 600) s = "..." + s.substr(s.size() - 600);
		v.fail(rule, pr, msg + " | log: " + s);
	}
	std::string dom() const { return prop == "C08" ? "C04,C02,C08" : prop; }
	int keyOf(int a) const { return ((a % kKeys) + kKeys) % kKeys; }
	int resolveHandle(int a, int self) const {
		const int n = (int)nodeCb.size();
		if(a >= 0) return n ? a % n : -1;
		switch(a) {
		case -1: return self >= 0 ? self : (n ? n - 1 : -1);
		case -2: return lastRemoved;
		case -3: return -1;
		case -4: return n ? n - 1 : -1;
		case -5: return frames.size() >= 2 ? frames[frames.size() - 2].inv.currentNode : self;
		default: return -1;
		}
	}
	int whereIs(int node) const { for(int k = 0; k < kKeys; ++k) if(lists[k].has(node)) return k; return -1; }

	void exec(const std::vector<Op> & ops, int depth, int self) {
		for(const Op & op : ops) {
			if(failed) return;
			execOp(op, depth, self);
			if(depth == 0 && ! failed) quiescent();
		}
	}

	int addNode(const Op & op, int key, int style) {
		cbBody.push_back(&op.body);
		int node = (int)nodeCb.size();
		nodeCb.push_back((int)cbBody.size() - 1);
		nodeKey.push_back(key);
		nodeStyle.push_back(style);
		if(! frames.empty()) { mutatedDuring = true; if(frames.back().key != key) otherKeyOp = true; }
		return node;
	}

	void execOp(const Op & op, int depth, int self) {
		log << ' ' << kindName(op.kind);
		switch(op.kind) {
		case D_APPEND: case D_PREPEND: {
			int key = keyOf(op.a);
			int node = addNode(op, key, op.c);
			if(op.kind == D_APPEND) { lists[key].append(node); impl->append(key, nodeCb[node], op.c); }
			else { lists[key].prepend(node); impl->prepend(key, nodeCb[node], op.c); }
			log << "(k" << key << ":n" << node << ")";
			break;
		}
		case D_INSERT: {
			int key = keyOf(op.a);
			int h = resolveHandle(op.b, self);
			int w = h >= 0 ? whereIs(h) : -1;
			if(w >= 0 && w != key) { log << "(skip-foreign)"; break; } // handle of another event's list: documented UB
			int node = addNode(op, key, op.c);
			lists[key].insertBefore(node, h);
			impl->insert(key, nodeCb[node], op.c, h);
			log << "(k" << key << ":n" << node << " before h" << h << ")";
			break;
		}
		case D_REMOVE: {
			int h = resolveHandle(op.a, self);
			int key = (op.b & 1) && h >= 0 ? keyOf(op.c) : (h >= 0 ? nodeKey[h] : keyOf(op.c));
			int w = h >= 0 ? whereIs(h) : -1;
			if(w >= 0 && w != key) { log << "(skip-foreign)"; break; }
			bool expect = lists[key].remove(h);
			if(expect && ! frames.empty()) { mutatedDuring = true; if(frames.back().key != key) otherKeyOp = true; }
			if(h >= 0) lastRemoved = h;
			bool r = impl->remove(key, h);
			log << "(k" << key << ":h" << h << ")=" << r;
			if(r != expect) fail("disp.remove.result", dom(), "removeListener returned " + std::to_string(r) + ", model says " + std::to_string(expect));
			break;
		}
		case D_OWNS: {
			int h = resolveHandle(op.a, self);
			int key = h >= 0 && (op.b & 1) == 0 ? nodeKey[h] : keyOf(op.c);
			bool expect = lists[key].has(h);
			bool r = impl->owns(key, h);
			if(r != expect) fail("disp.owns.result", dom(), "ownsHandle(k" + std::to_string(key) + ", h" + std::to_string(h) + ") returned " + std::to_string(r) + ", model says " + std::to_string(expect));
			break;
		}
		case D_HASANY: {
			int key = keyOf(op.a);
			bool r = impl->hasAny(key);
			if(r != ! lists[key].empty()) fail("disp.hasAny.result", dom(), "hasAnyListener(k" + std::to_string(key) + ") returned " + std::to_string(r) + ", model holds " + std::to_string(lists[key].nodes.size()));
			break;
		}
		case D_UTIL_HAS: case D_UTIL_REMOVE: case D_UTIL_HASANY: {
			if(! impl->hasUtil()) break;
			const int key = keyOf(op.a), cls = ((op.b % 3) + 3) % 3;
			// the first callback of that class in list order
			int first = -1;
			for(int n : lists[key].nodes) if(nodeCb[n] % 3 == cls) { first = n; break; }
			if(op.kind == D_UTIL_HASANY) {
				bool r = impl->utilHasAny(key);
				if(r != ! lists[key].empty()) fail("disp.util.hasAny", dom(), "hasAnyListener(dispatcher, k" + std::to_string(key) + ") returned " + std::to_string(r));
			}
			else if(op.kind == D_UTIL_HAS) {
				bool r = impl->utilHas(key, cls);
				if(r != (first >= 0)) fail("disp.util.has", dom(), "hasListener(dispatcher, k" + std::to_string(key) + ", class " + std::to_string(cls) + ") returned " + std::to_string(r) + ", model says " + std::to_string(first >= 0));
			}
			else {
				// removes the first equal callback of that event and only that one
				if(first >= 0) { lists[key].remove(first); if(! frames.empty()) mutatedDuring = true; }
				bool r = impl->utilRemove(key, cls);
				log << "(k" << key << " class" << cls << ")=" << r;
				if(r != (first >= 0)) fail("disp.util.remove", dom(), "removeListener(dispatcher, k" + std::to_string(key) + ", class " + std::to_string(cls) + ") returned " + std::to_string(r) + ", model says " + std::to_string(first >= 0));
				utilRemoved = true;
			}
			break;
		}
		case D_FOREACH: {
			enumerate(keyOf(op.a), "forEach");
			break;
		}
		case D_FOREACHIF: {
			int key = keyOf(op.a);
			int stop = op.b < 0 ? 0 : op.b;
			std::vector<int> got;
			bool r = impl->forEachIf(key, stop, got);
			const auto & nodes = lists[key].nodes;
			size_t expN = std::min(nodes.size(), (size_t)stop + 1);
			bool same = got.size() == expN && r == (nodes.size() <= (size_t)stop);
			for(size_t i = 0; same && i < expN; ++i) same = got[i] == nodes[i];
			if(! same) fail("disp.forEachIf", dom(), "forEachIf(k" + std::to_string(key) + ") visited " + std::to_string(got.size()) + " returned " + std::to_string(r));
			break;
		}
		case D_DISPATCH: {
			if((int)frames.size() >= kMaxDepth || fuel <= 0) { log << "(skip)"; break; }
			const int called = keyOf(op.a);
			const int key = impl->routeOf(called); // the event whose listeners must run
			DFrame f;
			f.key = key;
			f.inv.begin(lists[key]);
			int nonEmpty = 0;
			for(int k = 0; k < kKeys; ++k) if(! lists[k].empty()) ++nonEmpty;
			if(nonEmpty >= 2) twoKeys = true;
			if((op.c & 1) && lists[key].nodes.size() >= 2 && (nodeStyle[lists[key].nodes[0]] & 1)) { tempKeyDispatch = true; firstByValue = true; }
			if(mutatedDuring) observedAfter = true;
			frames.push_back(f);
			int serial = nextSerial++;
			int value = ((op.b < 0 ? -op.b : op.b) % 100000);
			log << "(k" << key << "){";
			Summary expect;
			bool callerIntact = impl->dispatch(called, serial, value, op.c, expect);
			log << "}";
			if(failed) { frames.pop_back(); break; }
			DFrame & fr = frames.back();
			int due = fr.inv.due(lists[key]);
			if(due >= 0) fail("disp.dispatch.missed", dom(), "dispatch(k" + std::to_string(key) + ") returned without calling listener n" + std::to_string(due) + "/cb" + std::to_string(nodeCb[due]));
			else if(! callerIntact) fail("disp.dispatch.caller", dom(), "the caller's lvalue arguments were modified or moved from by dispatch");
			frames.pop_back();
			break;
		}
		default: break;
		}
		if(checkedState().unbalanced) fail("disp.mutex.unbalanced", "*", "unlock of a mutex that was not locked");
		(void)depth;
	}

	std::vector<int> callsOf; // per listener id: calls so far
	bool utilRemoved = false;
	void onCall(int cb, const Summary & s) {
		if(failed) return;
		if(frames.empty()) { fail("disp.call.spurious", dom(), "listener cb" + std::to_string(cb) + " called outside any dispatch"); return; }
		DFrame & f = frames.back();
		// the expected argument summary is only known once impl->dispatch built its arguments: it is passed back through
		// `expect` after the call, so the frame learns it from the first listener and requires every later one to agree
		int due = f.inv.due(lists[f.key]);
		if(due < 0 || nodeCb[due] != cb) {
			int w = -1;
			for(size_t n = 0; n < nodeCb.size(); ++n) if(nodeCb[n] == cb) w = nodeKey[n];
			fail("disp.dispatch.listener", dom(), "dispatch(k" + std::to_string(f.key) + ") called listener cb" + std::to_string(cb) + " (registered for k" + std::to_string(w) + "), next due is " + (due < 0 ? std::string("none") : "cb" + std::to_string(nodeCb[due])));
			return;
		}
		f.inv.advance(due);
		if((size_t)cb >= callsOf.size()) callsOf.resize((size_t)cb + 1, 0);
		if(++callsOf[(size_t)cb] != g_ownCalls) {
			fail("disp.listener.state", dom(), "listener cb" + std::to_string(cb) + " has been called " + std::to_string(callsOf[(size_t)cb]) + " time(s), but the object that ran counts " + std::to_string(g_ownCalls)
				+ " call(s) of its own: the dispatch did not invoke the registered listener object (state kept inside a listener is lost)");
			return;
		}
		if(! g_expect || s != *g_expect) {
			std::ostringstream m;
			m << "listener cb" << cb << " (call #" << f.inv.calls << " of dispatch k" << f.key << ") received [";
			for(long long x : s) m << ' ' << x;
			m << " ] but the caller supplied [";
			if(g_expect) for(long long x : *g_expect) m << ' ' << x;
			m << " ]";
			fail("disp.dispatch.args", dom(), m.str());
			return;
		}
		log << " >cb" << cb;
		if(--fuel > 0) {
			const std::vector<Op> * body = cbBody[cb];
			if(body && ! body->empty()) {
				exec(*body, (int)frames.size(), due);
			}
		}
		log << " <";
	}
	void enumerate(int key, const char * what) {
		std::vector<int> got;
		impl->forEach(key, got);
		if(got != lists[key].nodes) {
			std::ostringstream m;
			m << what << "(k" << key << ") saw [";
			for(int g : got) m << " n" << g;
			m << " ] model [";
			for(int n : lists[key].nodes) m << " n" << n;
			m << " ]";
			fail("disp.enumerate", dom(), m.str());
		}
	}

	void quiescent() {
		if(ledger().isFlagged()) { fail("ledger.flag", "C08", ledger().message()); return; }
		std::vector<int> count(cbBody.size(), 0);
		for(int k = 0; k < kKeys; ++k) for(int n : lists[k].nodes) ++count[nodeCb[n]];
		for(size_t cb = 0; cb < count.size(); ++cb) {
			int live = ledger().live(kCbBase + (int)cb);
			if(count[cb] == 0 && live != 0) { fail("ledger.cb.notreleased", "C08", "listener cb" + std::to_string(cb) + " was removed and no dispatch is running, but " + std::to_string(live) + " instance(s) are alive"); return; }
			if(live < count[cb]) { fail("ledger.cb.missing", "C08," + dom(), "listener cb" + std::to_string(cb) + " is registered according to the model but no instance of it is alive: the dispatcher no longer holds it"); return; }
		}
	}

	void finalProbe() {
		ChoiceSource ch(prog, fnv1a(toText(prog)));
		for(int k = 0; k < kKeys && ! failed; ++k) {
			enumerate(k, "final forEach");
			if(failed) break;
			bool any = impl->hasAny(k);
			if(any != ! lists[k].empty()) { fail("disp.hasAny.final", dom(), "final hasAnyListener differs from the model"); break; }
			for(int h = 0; h < (int)nodeCb.size() && ! failed; ++h) {
				bool r = impl->owns(k, h);
				if(r != lists[k].has(h)) fail("disp.probe.owns", dom(), "final ownsHandle(k" + std::to_string(k) + ", h" + std::to_string(h) + ") is " + std::to_string(r));
			}
			while(! failed && ! lists[k].nodes.empty()) {
				size_t i = ch.below((uint32_t)lists[k].nodes.size());
				int n = lists[k].nodes[i];
				lists[k].remove(n);
				if(! impl->remove(k, n)) { fail("disp.probe.remove", dom(), "final removeListener returned false for a registered listener"); break; }
				enumerate(k, "probe forEach");
			}
		}
	}

	void run() {
		const int cfg = prog.params.empty() ? 0 : ((prog.params[0] % kConfigs) + kConfigs) % kConfigs;
		impl.reset(makeImpl(cfg));
		try {
			exec(prog.ops, 0, -1);
			if(! failed) finalProbe();
			if(! failed) quiescent();
		}
		catch(const DeadlockDetected &) {
			frames.clear();
			fail("disp.deadlock", "C02", "a mutex was locked again by the thread that holds it");
		}
		frames.clear();
		impl.reset();
		if(! failed) {
			if(ledger().isFlagged()) fail("ledger.flag", "C08", ledger().message());
			else if(ledger().totalLive() != 0) fail("ledger.leak", "C08", std::to_string(ledger().totalLive()) + " tracked object(s) alive after the dispatcher was destroyed (first id " + std::to_string(ledger().anyLiveIn(0, 1 << 30)) + ")");
		}
	}
};
void deliver(int cb, const Summary & s) { if(g_d) g_d->onCall(cb, s); }

} // namespace

namespace {

Grammar makeGrammar(const std::string & prop)
{
	Grammar g;
	g.params = { ArgSpec(0, kConfigs - 1) };
	g.maxDepth = 3;
	g.maxSched = 8;
	g.maxTotalOps = 150;
	const bool nested = prop != "C04";
	const ArgSpec key(0, kKeys - 1);
	const ArgSpec H(0, 30, -5, -1, 30);
	const ArgSpec HS(0, 30, -5, -1, 60);
	const int bl = nested ? 1 : -1;
	Level top;
	top.minOps = 1;
	top.maxOps = 60;
	top.kinds = {
		{ D_APPEND, "appendListener", 16, key, ArgSpec(0, 0), ArgSpec(0, 1), bl, 5 },
		{ D_PREPEND, "prependListener", 5, key, ArgSpec(0, 0), ArgSpec(0, 1), bl, 5 },
		{ D_INSERT, "insertListener", 6, key, H, ArgSpec(0, 1), bl, 5 },
		{ D_REMOVE, "removeListener", 8, H, ArgSpec(0, 3, 0, 0, 70), key, -1, 0 },
		{ D_OWNS, "ownsHandle", 3, H, ArgSpec(0, 1), key, -1, 0 },
		{ D_HASANY, "hasAnyListener", 2, key, ArgSpec(0, 0), ArgSpec(0, 0), -1, 0 },
		{ D_UTIL_HAS, "util.hasListener", 2, key, ArgSpec(0, 2), ArgSpec(0, 0), -1, 0 },
		{ D_UTIL_REMOVE, "util.removeListener", 3, key, ArgSpec(0, 2), ArgSpec(0, 0), -1, 0 },
		{ D_UTIL_HASANY, "util.hasAnyListener", 1, key, ArgSpec(0, 0), ArgSpec(0, 0), -1, 0 },
		{ D_FOREACH, "forEach", 3, key, ArgSpec(0, 0), ArgSpec(0, 0), -1, 0 },
		{ D_FOREACHIF, "forEachIf", 2, key, ArgSpec(0, 4), ArgSpec(0, 0), -1, 0 },
		{ D_DISPATCH, "dispatch", 22, key, ArgSpec(0, 99999), ArgSpec(0, 3), -1, 0 },
	};
	g.levels.push_back(top);
	if(nested) {
		Level body;
		body.kinds = {
			{ D_APPEND, "appendListener", 6, key, ArgSpec(0, 0), ArgSpec(0, 1), 1, 2 },
			{ D_INSERT, "insertListener", 5, key, HS, ArgSpec(0, 1), 1, 2 },
			{ D_REMOVE, "removeListener", 12, HS, ArgSpec(0, 3, 0, 0, 70), key, -1, 0 },
			{ D_OWNS, "ownsHandle", 3, HS, ArgSpec(0, 1), key, -1, 0 },
			{ D_FOREACH, "forEach", 2, key, ArgSpec(0, 0), ArgSpec(0, 0), -1, 0 },
			{ D_DISPATCH, "dispatch", 5, key, ArgSpec(0, 99999), ArgSpec(0, 3), -1, 0 },
			{ D_HASANY, "hasAnyListener", 1, key, ArgSpec(0, 0), ArgSpec(0, 0), -1, 0 },
		};
		g.levels.push_back(body);
	}
	return g;
}

const Grammar & grammar(const std::string & prop)
{
	static std::map<std::string, Grammar> cache;
	auto it = cache.find(prop);
	if(it == cache.end()) it = cache.insert(std::make_pair(prop, makeGrammar(prop))).first;
	return it->second;
}

long g_caseCounter = 0;

Verdict run(const Program & p, const std::string & prop)
{
	Verdict v;
	v.trace.reserve(4096);
	v.classes.reserve(32);
	ledger().reset();
	faults().reset();
	checkedState().reset();
	LeakScope scope;
	{
		Interp in(p, prop, v);
		g_d = &in;
		in.run();
		g_d = nullptr;
		auto cls = [&](bool b, const char * n) { if(b) v.classes.push_back(n); };
		cls(in.twoKeys, "two_keys_with_listeners");
		cls(in.tempKeyDispatch, "temporary_key_first_listener_by_value");
		cls(in.mutatedDuring, "mutation_during_dispatch");
		cls(in.otherKeyOp, "op_on_other_events_list_during_dispatch");
		if(prop == "C04") v.nontrivial = in.twoKeys && in.tempKeyDispatch && in.firstByValue;
		else if(prop == "C02") v.nontrivial = in.mutatedDuring && in.observedAfter;
		else v.nontrivial = in.mutatedDuring || in.twoKeys;
		const std::string full = in.log.str();
		v.trace.assign(full, 0, std::min<size_t>(full.size(), 4000));
	}
	ledger().reset();
	if(v.ok && (scope.grew() || (++g_caseCounter & 1023) == 0)) {
		v.classes.push_back("lsan_confirmation_run");
		if(confirmLeak()) v.fail("lsan.leak", "C08", "LeakSanitizer: memory allocated during the case is unreachable after the dispatcher was destroyed", "lsan.leak");
	}
	return v;
}

} // namespace

namespace vf {
const Harness g_harness = { "disp", &grammar, &run, &kindName, nullptr };
}
